#![allow(dead_code)]
mod adv;
mod c01;
mod check;
mod data;
mod e2;
mod e2b;
mod e2c;
mod e2d;
mod e2f;
mod worker;
mod scen;
mod families;
mod forge;
mod fork;
mod host;
mod mon_err;
mod mon_local;
mod mon_state;
mod mon_term;
mod refeval;
mod netmc;
mod props;
mod script;

use check::Tier;

fn usage() -> ! {
    host::elog(&format!("usage: mc check <ID> quick|thorough | mc families | mc replay <file>"));
    std::process::exit(2)
}

fn main() {
    host::install_panic_hook();
    host::silence_stderr();
    let args: Vec<String> = std::env::args().collect();
    if args.len() < 2 {
        usage();
    }
    match args[1].as_str() {
        "check" => {
            if args.len() < 4 {
                usage();
            }
            let tier = if args[3] == "thorough" { Tier::Thorough } else { Tier::Quick };
            let t0 = std::time::Instant::now();
            let id = args[2].clone();
            let res = std::panic::catch_unwind(move || props::check(&id, tier));
            let res = match res {
                Ok(r) => r,
                Err(_) => Err(format!("the harness itself panicked: {}", host::take_last_panic().unwrap_or_default())),
            };
            match res {
                Ok(rep) => std::process::exit(check::finish(rep, tier, t0)),
                Err(e) => {
                    host::elog(&format!("MACHINERY-ERROR property={} {e}", args[2]));
                    std::process::exit(2)
                }
            }
        }
        "worker" => std::process::exit(worker::worker_main()),
        "replay" => {
            if args.len() < 3 {
                usage();
            }
            std::process::exit(replay_file(&args[2]));
        }
        "families" => {
            for (n, v) in [("STREAM quick", families::stream_family(0)), ("STREAM thorough", families::stream_family(1)), ("MAP quick", families::map_family(0)), ("MAP thorough", families::map_family(1)), ("ERR quick", families::err_family(0)), ("ERR thorough", families::err_family(1)), ("SEQ_3 quick", families::seq_family(3, 0)), ("SEQ_4 thorough", families::seq_family(4, 1))] {
                println!("{n}: {} scripts", v.len());
            }
        }
        _ => usage(),
    }
}

/// Re-executes a recorded violation on fresh interpreters, without the explorer, twice; prints the verdict.
fn replay_file(path: &str) -> i32 {
    let text = match std::fs::read_to_string(path) {
        Ok(t) => t,
        Err(e) => {
            host::elog(&format!("cannot read {path}: {e}"));
            return 2;
        }
    };
    let v: serde_json::Value = serde_json::from_str(&text).expect("replay file is JSON");
    let engine = v["engine"].as_str().unwrap_or("");
    if engine != "netmc" {
        let mut v = v;
        v["__path"] = serde_json::json!(path);
        return props::replay_other(&v);
    }
    let script: script::Script = serde_json::from_value(v["script"].clone()).expect("script");
    let id = v["monitor"].as_str().unwrap_or("").to_string();
    let path_steps = v["path"].as_array().cloned().unwrap_or_default();
    let want = v["signature"].as_str().unwrap_or("").to_string();
    let mut verdicts = vec![];
    for _ in 0..2 {
        let world = netmc::World::new(&script, &["O"], "particle-1");
        let mut mon = props::monitor_for(&id, &script).expect("monitor");
        match netmc::replay(world, &path_steps, mon.as_mut()) {
            Ok((viols, desc)) => {
                let tags: Vec<String> = viols.iter().map(|x| x.tag.clone()).collect();
                verdicts.push((tags, serde_json::to_string(&desc).unwrap()));
            }
            Err(e) => {
                println!("REPLAY-DIVERGED {e}");
                return 2;
            }
        }
    }
    if verdicts[0] != verdicts[1] {
        println!("REPLAY-NONDETERMINISTIC");
        return 2;
    }
    println!("replayed path: {}", verdicts[0].1);
    if verdicts[0].0.iter().any(|t| *t == want) {
        println!("VIOLATION property={} replay={path}", v["property"].as_str().unwrap_or(""));
        println!("reproduced: {want}");
        1
    } else {
        println!("not reproduced (violations seen: {:?})", verdicts[0].0);
        0
    }
}
