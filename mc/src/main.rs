mod data;
mod host;
mod netmc;
mod script;

use script::*;

struct NoMon;
impl netmc::Monitor for NoMon {}

fn demo_scripts() -> Vec<Script> {
    let p3 = vec!["A".to_string(), "B".to_string(), "C".to_string()];
    vec![
        Script {
            family: "demo",
            name: "seq3".into(),
            ast: seqs(vec![
                call("A", "f1", vec![], sc("x")),
                call("B", "f2", vec![var("x")], sc("y")),
                call("C", "f3", vec![var("y")], sc("z")),
            ]),
            peers: p3.clone(),
        },
        Script {
            family: "demo",
            name: "dataflow4".into(),
            ast: seqs(vec![
                call("A", "f1", vec![], sc("x")),
                par(call("B", "f2", vec![var("x")], sc("y")), call("C", "f3", vec![var("x")], sc("z"))),
                call("A", "f4", vec![var("y"), var("z")], sc("w")),
            ]),
            peers: p3.clone(),
        },
        Script {
            family: "demo",
            name: "writers3_canon".into(),
            ast: seqs(vec![
                pars(vec![
                    call("A", "f1", vec![], st("$s")),
                    call("B", "f2", vec![], st("$s")),
                    call("C", "f3", vec![], st("$s")),
                ]),
                canon("A", "$s", "#c"),
                call("B", "obs", vec![Arg::Canon("#c".into())], sc("o")),
            ]),
            peers: p3.clone(),
        },
        Script {
            family: "demo",
            name: "writers3_fold".into(),
            ast: seqs(vec![
                pars(vec![
                    call("A", "f1", vec![], st("$s")),
                    call("B", "f2", vec![], st("$s")),
                    call("C", "f3", vec![], st("$s")),
                ]),
                fold(Arg::Stream("$s".into()), "i", par(call("A", "visit", vec![var("i")], Out::None), I::Next("i".into()))),
            ]),
            peers: p3.clone(),
        },
    ]
}

fn main() {
    host::install_panic_hook();
    let args: Vec<String> = std::env::args().collect();
    if args.len() > 1 && args[1] == "demo" {
        for s in demo_scripts() {
            for dup in [false, true] {
                let w = netmc::World::new(&s, &["O"], "particle-1");
                println!("{} :: {}", s.name, w.part.script);
                let cfg = netmc::Cfg { dup, ..Default::default() };
                let ex = netmc::explore(w, &cfg, &mut NoMon);
                println!("  dup={dup} {:?}", ex.stats);
            }
        }
    }
}
