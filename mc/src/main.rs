fn main() { println!("mc"); }
