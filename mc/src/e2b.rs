//! Engine E2, preparation-step enumerations through the public entry point `air::execute_air`:
//! C21 (interpreter-version gate) and C22 (size limits). Every case is a small JSON document that names a
//! scripted honest history (rebuilt deterministically) and the parameters of the one run that is judged,
//! so `mc replay` re-evaluates exactly that case without the enumerator.

use crate::check::{Report, Tier, Violation};
use crate::host::{self, Limits, RawResults};
use crate::mon_local::{codes, outcome_digest};
use crate::scen::Scen;
use crate::script::*;

use air_interpreter_data::{InterpreterDataEnvelope, Versions};
use serde_json::{json, Value};
use std::collections::BTreeMap;

pub type Found = Vec<(String, String)>;

pub fn to_violations(case: &Value, found: Found) -> Vec<Violation> {
    found.into_iter().map(|(sig, d)| Violation { signature: sig, description: d, replay: json!({"engine": "e2", "case": case}) }).collect()
}

pub fn e2_report(id: &str, assumptions: &[&str]) -> Report {
    let mut rep = Report::new(id, "exploration");
    rep.assumptions = assumptions.iter().map(|s| s.to_string()).collect();
    rep.cov("exhaustive", json!(true));
    rep
}

// ---------------------------------------------------------------------------------------------
// victims: (peer, previous data, current data, call results) tuples taken from scripted honest histories

pub struct Victim {
    pub name: &'static str,
    pub sc: Scen,
    pub peer: usize,
    pub prev: Vec<u8>,
    pub cur: Vec<u8>,
    pub results: RawResults,
}

fn two_branch_script() -> I {
    // (par (call B g1 [] u) (seq (call A f1 [] x) (call B f2 [x] y)))
    par(call("B", "g1", vec![], sc("u")), seq(call("A", "f1", vec![], sc("x")), call("B", "f2", vec![var("x")], sc("y"))))
}

fn pending_raw(sc: &Scen, peer: &str) -> RawResults {
    let p = sc.pidx(peer);
    let name = sc.cx.world.peers[p].name.clone();
    sc.st.pending[p].iter().map(|(id, rq)| (*id, sc.cx.world.oracle.answer(&name, &sc.cx.reqs[*rq as usize]))).collect()
}

/// The fixed victims. Each one is a situation in which an honest run succeeds and changes the peer's data.
pub fn victim(name: &str) -> Option<Victim> {
    // a tree on which even the scripted honest history cannot be driven (e.g. every data is rejected) must not
    // take the harness down
    std::panic::catch_unwind(|| victim_inner(name)).ok().flatten()
}

fn victim_inner(name: &str) -> Option<Victim> {
    let mk = |name: &'static str, sc: Scen, peer: &str, prev: Vec<u8>, cur: Vec<u8>, results: RawResults| {
        let p = sc.pidx(peer);
        Some(Victim { name, sc, peer: p, prev, cur, results })
    };
    match name {
        // B holds its own earlier data (a pending request), A's newer data arrives
        "B-merges-A" => {
            let mut s = Scen::new("v1", two_branch_script(), &["A", "B"]);
            s.deliver("B", 0, false);
            s.ret("A");
            let cur = s.blob_bytes(s.inflight_for("B")[0]);
            let prev = s.prev_bytes("B");
            mk("B-merges-A", s, "B", prev, cur, RawResults::new())
        }
        // B has never seen the particle
        "B-fresh" => {
            let mut s = Scen::new("v2", two_branch_script(), &["A", "B"]);
            s.ret("A");
            let b = *s.inflight_for("B").last().unwrap();
            let cur = s.blob_bytes(b);
            mk("B-fresh", s, "B", vec![], cur, RawResults::new())
        }
        // A holds data with an executed call, B's data with B's own result arrives
        "A-merges-B" => {
            let mut s = Scen::new("v3", seq(par(call("B", "g1", vec![], sc("u")), call("A", "f1", vec![], sc("x"))), call("A", "f3", vec![var("u"), var("x")], sc("z"))), &["A", "B"]);
            s.deliver("B", 0, false);
            s.ret("B");
            s.ret("A");
            let cur = s.blob_bytes(s.inflight_for("A")[0]);
            let prev = s.prev_bytes("A");
            mk("A-merges-B", s, "A", prev, cur, RawResults::new())
        }
        // current data together with two call results of different length
        "B-merges-A-with-results" => {
            let mut s = Scen::new("v4", par(par(call("B", "g1", vec![], sc("u")), call("B", "g2longername", vec![Arg::Str("padding-padding-padding".into())], sc("w"))), seq(call("A", "f1", vec![], sc("x")), call("B", "f2", vec![var("x")], sc("y")))), &["A", "B"]);
            s.deliver("B", 0, false);
            s.ret("A");
            let cur = s.blob_bytes(s.inflight_for("B")[0]);
            let prev = s.prev_bytes("B");
            let res = pending_raw(&s, "B");
            mk("B-merges-A-with-results", s, "B", prev, cur, res)
        }
        // call results only (empty current data)
        "A-results-only" => {
            let s = Scen::new("v5", par(call("A", "g1", vec![], sc("u")), call("A", "g2longername", vec![Arg::Str("padding-padding".into())], sc("w"))), &["A", "B"]);
            let prev = s.prev_bytes("A");
            let res = pending_raw(&s, "A");
            mk("A-results-only", s, "A", prev, vec![], res)
        }
        // call results only, one of them a (long) service failure
        "A-results-with-failure" => {
            let s = Scen::new("v7", par(call("A", "g1", vec![], sc("u")), xor(call("A", "fail2longername", vec![Arg::Str("padding-padding-padding-padding".into())], sc("w")), I::Null)), &["A", "B"]);
            let prev = s.prev_bytes("A");
            let res = pending_raw(&s, "A");
            mk("A-results-with-failure", s, "A", prev, vec![], res)
        }
        // the very first run of a particle: nothing but the script
        "A-init" => {
            let s = Scen::new("v6", two_branch_script(), &["A", "B"]);
            mk("A-init", s, "A", vec![], vec![], RawResults::new())
        }
        _ => None,
    }
}

pub const VICTIMS: [&str; 7] = ["B-merges-A", "B-fresh", "A-merges-B", "B-merges-A-with-results", "A-results-only", "A-results-with-failure", "A-init"];

impl Victim {
    pub fn run(&self, prev: &[u8], cur: &[u8], limits: &Limits) -> Result<air_interpreter_interface::InterpreterOutcome, String> {
        host::run_raw(&self.sc.cx.world.part, &self.sc.cx.world.peers[self.peer], prev, cur, host::encode_results(&self.results), limits)
    }
}

// ---------------------------------------------------------------------------------------------
// C21

/// (major, minor, patch, pre-release, build) - the reference ordering works on these pieces, never on a
/// parsed semver::Version.
type VParts = (u64, u64, u64, String, String);

fn vtext(v: &VParts) -> String {
    let mut s = format!("{}.{}.{}", v.0, v.1, v.2);
    if !v.3.is_empty() {
        s.push('-');
        s.push_str(&v.3);
    }
    if !v.4.is_empty() {
        s.push('+');
        s.push_str(&v.4);
    }
    s
}

/// semver.org 11: precedence of pre-release identifier lists.
fn pre_less(a: &str, b: &str) -> bool {
    // both non-empty
    let (ia, ib): (Vec<&str>, Vec<&str>) = (a.split('.').collect(), b.split('.').collect());
    for k in 0..ia.len().max(ib.len()) {
        match (ia.get(k), ib.get(k)) {
            (None, Some(_)) => return true,
            (Some(_), None) => return false,
            (Some(x), Some(y)) => {
                let (nx, ny) = (x.parse::<u64>().ok().filter(|_| x.bytes().all(|c| c.is_ascii_digit())), y.parse::<u64>().ok().filter(|_| y.bytes().all(|c| c.is_ascii_digit())));
                match (nx, ny) {
                    (Some(p), Some(q)) if p != q => return p < q,
                    (Some(_), Some(_)) => {}
                    (Some(_), None) => return true,
                    (None, Some(_)) => return false,
                    (None, None) if x != y => return x.as_bytes() < y.as_bytes(),
                    _ => {}
                }
            }
            (None, None) => unreachable!(),
        }
    }
    false
}

/// SemVerOrd: is `a` older than `b` (build metadata does not make a version older)?
fn older(a: &VParts, b: &VParts) -> bool {
    if (a.0, a.1, a.2) != (b.0, b.1, b.2) {
        return (a.0, a.1, a.2) < (b.0, b.1, b.2);
    }
    match (a.3.is_empty(), b.3.is_empty()) {
        (true, true) => false,
        (false, true) => true,
        (true, false) => false,
        (false, false) => pre_less(&a.3, &b.3),
    }
}

fn min_parts() -> VParts {
    let m = air::min_supported_version();
    (m.major, m.minor, m.patch, m.pre.as_str().to_string(), String::new())
}

fn version_grid(tier: Tier) -> Vec<VParts> {
    let m = min_parts();
    let mut majors = vec![m.0, m.0 + 1];
    if m.0 > 0 {
        majors.push(m.0 - 1);
    }
    let mut minors = vec![0, m.1.saturating_sub(1), m.1, m.1 + 1];
    let mut patches = vec![m.2, m.2 + 1];
    if m.2 > 0 {
        patches.push(m.2 - 1);
    }
    let mut pres = vec!["", "alpha", "rc.1", "0"];
    let mut builds = vec!["", "b"];
    if tier == Tier::Thorough {
        majors.extend([m.0 + 2, 18446744073709551615]);
        minors.extend([1, 6, m.1 + 39, 610, 18446744073709551615]);
        patches.extend([9, 10, 100]);
        pres.extend(["alpha.1", "-", "1.0", "rc.1.x", "00a"]);
        builds.extend(["0", "b.1-x"]);
    }
    for v in [&mut majors, &mut minors, &mut patches] {
        v.sort();
        v.dedup();
    }
    let mut out = vec![];
    for a in &majors {
        for b in &minors {
            for c in &patches {
                for p in &pres {
                    for q in &builds {
                        out.push((*a, *b, *c, p.to_string(), q.to_string()));
                    }
                }
            }
        }
    }
    out
}

fn reversion(blob: &[u8], iv: Option<&str>, dv: Option<&str>) -> Result<Vec<u8>, String> {
    let env = InterpreterDataEnvelope::try_from_slice(blob).map_err(|e| format!("envelope: {e}"))?;
    let versions = Versions {
        interpreter_version: match iv {
            Some(t) => semver::Version::parse(t).map_err(|e| format!("{t}: {e}"))?,
            None => env.versions.interpreter_version.clone(),
        },
        data_version: match dv {
            Some(t) => semver::Version::parse(t).map_err(|e| format!("{t}: {e}"))?,
            None => env.versions.data_version.clone(),
        },
    };
    let env2 = InterpreterDataEnvelope { versions, inner_data: env.inner_data.clone() };
    env2.serialize().map_err(|e| format!("serialize: {e}"))
}

fn digest_eq_modulo(a: &Value, b: &Value) -> Option<String> {
    for f in ["ret_code", "error_message", "data", "requests", "next", "flags"] {
        if a[f] != b[f] {
            return Some(format!("{f}: {} vs {}", a[f].to_string().chars().take(300).collect::<String>(), b[f].to_string().chars().take(300).collect::<String>()));
        }
    }
    None
}

/// One C21 case. kinds: "cur" (versions of the current data), "prev" (versions of the previous data),
/// "empty" (empty current data against an explicitly encoded empty data).
pub fn c21_case(case: &Value) -> Found {
    let mut out: Found = vec![];
    let Some(v) = victim(case["victim"].as_str().unwrap_or("")) else {
        return vec![("C21/honest-history-breaks-down".into(), format!("the scripted honest history {} cannot be driven on this tree: some honest run does not forward the particle or hand out its requests", case["victim"]))];
    };
    let lim = Limits::default();
    let honest = match v.run(&v.prev, &v.cur, &lim) {
        Ok(o) => o,
        Err(p) => return vec![("MACHINERY/honest-run-panicked".into(), p)],
    };
    if honest.ret_code != 0 {
        return vec![("MACHINERY/honest-run-failed".into(), format!("{} {}", honest.ret_code, honest.error_message))];
    }
    let hd = outcome_digest(&honest).unwrap();
    let kind = case["kind"].as_str().unwrap_or("");
    let iv = case["interpreter_version"].as_str();
    let dv = case["data_version"].as_str();
    match kind {
        "cur" => {
            let cur2 = match reversion(&v.cur, iv, dv) {
                Ok(b) => b,
                Err(e) => return vec![("MACHINERY/cannot-build-case".into(), e)],
            };
            // the versions must be readable back (otherwise the case does not test what it says)
            match InterpreterDataEnvelope::try_get_versions(&cur2) {
                Ok(vs) => {
                    if iv.map(|t| vs.interpreter_version.to_string() != t).unwrap_or(false) {
                        return vec![("MACHINERY/version-not-preserved".into(), format!("{iv:?} became {}", vs.interpreter_version))];
                    }
                }
                Err(e) => return vec![("MACHINERY/versions-unreadable".into(), e.to_string())],
            }
            let must_reject = case["older"].as_bool().unwrap_or(false);
            let o = match v.run(&v.prev, &cur2, &lim) {
                Ok(o) => o,
                Err(p) => return vec![("C21/panic".into(), p)],
            };
            if must_reject {
                if o.ret_code != codes::UNSUPPORTED_VERSION {
                    out.push(("C21/old-version-not-rejected".into(), format!("current data with interpreter version {iv:?} (older than {}) gave ret_code {} {:?}", air::min_supported_version(), o.ret_code, o.error_message)));
                } else {
                    if o.data != v.prev {
                        out.push(("C21/rejected-run-does-not-return-prev".into(), format!("{} bytes returned, prev has {}", o.data.len(), v.prev.len())));
                    }
                    if !o.next_peer_pks.is_empty() || host::decode_requests(&o.call_requests).map(|m| !m.is_empty()).unwrap_or(true) {
                        out.push(("C21/rejected-run-has-effects".into(), format!("next peers {:?}", o.next_peer_pks)));
                    }
                    if !o.error_message.contains(iv.unwrap_or("")) {
                        out.push(("C21/error-does-not-name-the-version".into(), o.error_message.clone()));
                    }
                }
            } else {
                if o.ret_code == codes::UNSUPPORTED_VERSION {
                    out.push(("C21/supported-version-rejected".into(), format!("current data with interpreter version {iv:?} / data version {dv:?}: {}", o.error_message)));
                } else if let Some(d) = digest_eq_modulo(&outcome_digest(&o).unwrap(), &hd) {
                    out.push(("C21/version-changes-the-outcome".into(), format!("interpreter version {iv:?} / data version {dv:?}: {d}")));
                }
            }
        }
        "prev" => {
            if v.prev.is_empty() {
                return out;
            }
            let prev2 = match reversion(&v.prev, iv, dv) {
                Ok(b) => b,
                Err(e) => return vec![("MACHINERY/cannot-build-case".into(), e)],
            };
            let o = match v.run(&prev2, &v.cur, &lim) {
                Ok(o) => o,
                Err(p) => return vec![("C21/panic".into(), p)],
            };
            if o.ret_code == codes::UNSUPPORTED_VERSION {
                out.push(("C21/previous-data-version-checked".into(), format!("previous data with interpreter version {iv:?}: {}", o.error_message)));
            } else if let Some(d) = digest_eq_modulo(&outcome_digest(&o).unwrap(), &hd) {
                out.push(("C21/version-changes-the-outcome".into(), format!("previous data with interpreter version {iv:?} / data version {dv:?}: {d}")));
            }
        }
        "empty" => {
            // empty current data == explicitly encoded empty data (any supported version)
            let explicit = InterpreterDataEnvelope::new(semver::Version::parse(iv.unwrap_or("0.0.0")).unwrap()).serialize().unwrap();
            let a = v.run(&v.prev, &[], &lim);
            let b = v.run(&v.prev, &explicit, &lim);
            match (a, b) {
                (Ok(a), Ok(b)) => {
                    if a.ret_code == codes::UNSUPPORTED_VERSION {
                        out.push(("C21/empty-current-data-rejected".into(), a.error_message.clone()));
                    }
                    if case["older"].as_bool() == Some(true) {
                        if b.ret_code != codes::UNSUPPORTED_VERSION {
                            out.push(("C21/old-version-not-rejected".into(), format!("explicit empty data of version {iv:?}: ret_code {}", b.ret_code)));
                        }
                    } else if let Some(d) = digest_eq_modulo(&outcome_digest(&a).unwrap(), &outcome_digest(&b).unwrap()) {
                        out.push(("C21/empty-current-data-differs-from-empty-data".into(), d));
                    }
                }
                (Err(p), _) | (_, Err(p)) => out.push(("C21/panic".into(), p)),
            }
        }
        _ => out.push(("MACHINERY/unknown-case".into(), case.to_string())),
    }
    out
}

pub fn check_c21(tier: Tier) -> Report {
    let mut rep = e2_report(
        "C21",
        &[
            "versions are rewritten in the MessagePack envelope through the public InterpreterDataEnvelope fields; the inner data is the honest one",
            "the reference ordering is semver.org section 11 written out on (major, minor, patch, pre-release) pieces; the minimal supported version is read from air::min_supported_version()",
        ],
    );
    let grid = version_grid(tier);
    let m = min_parts();
    let mut evals = 0u64;
    let mut nontrivial = 0u64;
    let mut rejected = 0u64;
    let mut samples = vec![];
    let victims: Vec<&str> = VICTIMS.iter().copied().filter(|n| !n.contains("init") && !n.starts_with("A-results-")).collect(); // victims with non-empty current data
    for vn in &victims {
        for g in &grid {
            let t = vtext(g);
            let old = older(g, &m);
            // interpreter version of the current data
            let case = json!({"property": "C21", "kind": "cur", "victim": vn, "interpreter_version": t, "older": old});
            evals += 1;
            // non-trivial: versions sharing major.minor.patch with the minimum, or adjacent in one component
            let near = (g.0, g.1) == (m.0, m.1) || (g.0 == m.0 && g.1.checked_add(1) == Some(m.1));
            if near {
                nontrivial += 1;
            }
            if old {
                rejected += 1;
            }
            let f = c21_case(&case);
            if samples.len() < 8 && near && evals % 7 == 0 {
                samples.push(case.clone());
            }
            rep.violations.extend(to_violations(&case, f));
            // data version of the current data (never a reason to reject), interpreter version left alone
            let case = json!({"property": "C21", "kind": "cur", "victim": vn, "data_version": t, "older": false});
            evals += 1;
            rep.violations.extend(to_violations(&case, c21_case(&case)));
            // versions of the previous data are not checked
            let case = json!({"property": "C21", "kind": "prev", "victim": vn, "interpreter_version": t, "data_version": t});
            evals += 1;
            rep.violations.extend(to_violations(&case, c21_case(&case)));
        }
        // both at once on the boundary set
        let boundary: Vec<&VParts> = grid.iter().filter(|g| (g.0, g.1) == (m.0, m.1) || (g.0 == m.0 && g.1.checked_add(1) == Some(m.1))).collect();
        for a in &boundary {
            for b in boundary.iter().step_by(3) {
                let case = json!({"property": "C21", "kind": "cur", "victim": vn, "interpreter_version": vtext(a), "data_version": vtext(b), "older": older(a, &m)});
                evals += 1;
                rep.violations.extend(to_violations(&case, c21_case(&case)));
            }
        }
        for g in grid.iter().filter(|g| g.4.is_empty()) {
            let case = json!({"property": "C21", "kind": "empty", "victim": vn, "interpreter_version": vtext(g), "older": older(g, &m)});
            evals += 1;
            rep.violations.extend(to_violations(&case, c21_case(&case)));
        }
    }
    if rejected == 0 || rejected == (grid.len() * victims.len()) as u64 {
        rep.machinery_errors.push("vacuous: the version grid does not straddle the minimal supported version".into());
    }
    rep.cov("evaluations", json!(evals));
    rep.cov("distinct_nontrivial", json!(nontrivial));
    rep.cov("versions", json!(grid.len()));
    rep.cov("victims", json!(victims));
    rep.cov("versions_older_than_minimum", json!(rejected / victims.len() as u64));
    rep.cov("minimal_supported_version", json!(air::min_supported_version().to_string()));
    rep.cov("rule", json!("every version of the grid {majors} x {minors around the minimum} x {patches} x {pre-release} x {build} is written into (a) the interpreter_version of the current data: rejected with the unsupported-version code, previous data returned byte for byte, no next peers/requests iff older than the minimum by semver precedence, otherwise the outcome equals the honest run's; (b) the data_version of the current data: never rejected, outcome unchanged; (c) both versions of the previous data: never checked, outcome unchanged; (d) an explicitly encoded empty data of that version against empty current data; non-trivial = (victim, version) cases whose major.minor equals the minimum's or the minor just below it"));
    rep.cov("samples", json!(samples));
    rep
}

// ---------------------------------------------------------------------------------------------
// C22

fn limit_values(sizes: &[u64]) -> Vec<u64> {
    let mut v = vec![0u64, 1, u64::MAX, u64::MAX - 1];
    for s in sizes {
        v.extend([s.saturating_sub(1), *s, s.saturating_add(1)]);
    }
    v.sort();
    v.dedup();
    v
}

pub fn c22_case(case: &Value) -> Found {
    let mut out: Found = vec![];
    let Some(v) = victim(case["victim"].as_str().unwrap_or("")) else {
        return vec![("MACHINERY/unknown-victim".into(), case.to_string())];
    };
    let lim = Limits {
        air: case["air"].as_u64().unwrap_or(u64::MAX),
        particle: case["particle"].as_u64().unwrap_or(u64::MAX),
        call_result: case["call_result"].as_u64().unwrap_or(u64::MAX),
        hard: case["hard"].as_bool().unwrap_or(false),
    };
    let air_size = v.sc.cx.world.part.script.len() as u64;
    let cur_size = v.cur.len() as u64;
    let res_sizes: Vec<u64> = v.results.values().map(|r| r.result.len() as u64).collect();
    let exceeded = [air_size > lim.air, cur_size > lim.particle, res_sizes.iter().any(|s| *s > lim.call_result)];
    let unlimited = match v.run(&v.prev, &v.cur, &Limits::default()) {
        Ok(o) => o,
        Err(p) => return vec![("MACHINERY/unlimited-run-panicked".into(), p)],
    };
    if unlimited.ret_code != 0 {
        return vec![("MACHINERY/unlimited-run-failed".into(), format!("{} {}", unlimited.ret_code, unlimited.error_message))];
    }
    let ud = outcome_digest(&unlimited).unwrap();
    let o = match v.run(&v.prev, &v.cur, &lim) {
        Ok(o) => o,
        Err(p) => return vec![("C22/panic".into(), p)],
    };
    let od = outcome_digest(&o).unwrap();
    let flags = [o.air_size_limit_exceeded, o.particle_size_limit_exceeded, o.call_result_size_limit_exceeded];
    let what = format!("sizes air={air_size} current={cur_size} results={res_sizes:?}; limits air={} particle={} call_result={} hard={}", lim.air, lim.particle, lim.call_result, lim.hard);
    if lim.hard && exceeded.iter().any(|x| *x) {
        if o.ret_code != codes::SIZE_LIMITS {
            out.push(("C22/hard-limit-not-enforced".into(), format!("{what}: ret_code {} {:?}", o.ret_code, o.error_message)));
            return out;
        }
        if o.data != v.prev {
            out.push(("C22/rejected-run-does-not-return-prev".into(), what.clone()));
        }
        if !o.next_peer_pks.is_empty() || host::decode_requests(&o.call_requests).map(|m| !m.is_empty()).unwrap_or(true) {
            out.push(("C22/rejected-run-has-effects".into(), what.clone()));
        }
        // the matching size error: the message must describe a limit that really is exceeded
        let m = &o.error_message;
        let matching = (exceeded[0] && m.starts_with(&format!("air size: {air_size} bytes is bigger than the limit allowed: {} bytes", lim.air)))
            || (exceeded[1] && m.starts_with(&format!("Current_data particle size: {cur_size} bytes is bigger than the limit allowed: {} bytes", lim.particle)))
            || (exceeded[2] && m.starts_with(&format!("Call result size is bigger than the limit allowed: {} bytes", lim.call_result)));
        if !matching {
            out.push(("C22/size-error-does-not-match".into(), format!("{what}: message {m:?}")));
        }
    } else {
        // soft mode, or hard mode with nothing exceeded: exactly the unlimited run, plus the flags
        if o.ret_code == codes::SIZE_LIMITS {
            out.push(("C22/limit-triggered-without-being-exceeded".into(), format!("{what}: {}", o.error_message)));
            return out;
        }
        for f in ["ret_code", "error_message", "data", "requests", "next"] {
            if od[f] != ud[f] {
                out.push(("C22/limited-run-differs-from-unlimited-run".into(), format!("{what}: {f} differs")));
            }
        }
        if flags != exceeded {
            out.push(("C22/flags-do-not-match".into(), format!("{what}: flags (air, particle, call result) = {flags:?}, sizes say {exceeded:?}")));
        }
    }
    out
}

pub fn check_c22(tier: Tier) -> Report {
    let mut rep = e2_report(
        "C22",
        &[
            "sizes are the byte lengths execute_air itself measures: the script text, the current data, each call result string",
            "when several limits are exceeded in hard mode any error naming an exceeded limit counts as matching",
        ],
    );
    let mut evals = 0u64;
    let mut nontrivial = 0u64;
    let mut samples = vec![];
    let mut per_victim: BTreeMap<String, Value> = BTreeMap::new();
    for vn in VICTIMS {
        let v = victim(vn).unwrap();
        let air_size = v.sc.cx.world.part.script.len() as u64;
        let cur_size = v.cur.len() as u64;
        let res_sizes: Vec<u64> = v.results.values().map(|r| r.result.len() as u64).collect();
        let la = limit_values(&[air_size]);
        let lp = limit_values(&[cur_size]);
        let lr = if res_sizes.is_empty() { limit_values(&[]) } else { limit_values(&[*res_sizes.iter().min().unwrap(), *res_sizes.iter().max().unwrap()]) };
        let thin = |v: &Vec<u64>| -> Vec<u64> {
            if tier == Tier::Thorough {
                v.clone()
            } else {
                v.iter().cloned().filter(|x| *x != 1 && *x != u64::MAX - 1).collect()
            }
        };
        let (la, lp, lr) = (thin(&la), thin(&lp), thin(&lr));
        per_victim.insert(vn.to_string(), json!({"air_size": air_size, "current_data_size": cur_size, "call_result_sizes": res_sizes, "air_limits": la, "particle_limits": lp, "call_result_limits": lr}));
        for a in &la {
            for p in &lp {
                for r in &lr {
                    for hard in [true, false] {
                        let case = json!({"property": "C22", "victim": vn, "air": a, "particle": p, "call_result": r, "hard": hard});
                        evals += 1;
                        // non-trivial: some limit is within one byte of its size
                        let near = |l: u64, s: u64| l.abs_diff(s) <= 1;
                        if near(*a, air_size) || near(*p, cur_size) || res_sizes.iter().any(|s| near(*r, *s)) {
                            nontrivial += 1;
                        }
                        if samples.len() < 8 && evals % 211 == 0 {
                            samples.push(case.clone());
                        }
                        rep.violations.extend(to_violations(&case, c22_case(&case)));
                    }
                }
            }
        }
    }
    rep.cov("evaluations", json!(evals));
    rep.cov("distinct_nontrivial", json!(nontrivial));
    rep.cov("victims", json!(per_victim));
    rep.cov("rule", json!("for each victim (script, previous data, current data, call results) every combination of the three limits from {0, size-1, size, size+1, 2^64-1} (call results: around the smallest and the largest result) in hard and in soft mode; hard mode with an exceeded limit: size-limit code, an error naming an exceeded limit with the right numbers, previous data returned, no effects; otherwise: outcome equal to the unlimited run field by field and the three flags equal to size > limit exactly; non-trivial = cases with a limit within one byte of the size it guards"));
    rep.cov("samples", json!(samples));
    rep
}

pub fn replay_case(case: &Value) -> Option<Found> {
    match case["property"].as_str().unwrap_or("") {
        "C21" => Some(c21_case(case)),
        "C22" => Some(c22_case(case)),
        "C24" => Some(crate::e2c::c24_case(case)),
        "C27" => Some(crate::e2d::c27_case(case)),
        "C23" | "C28" => crate::e2f::replay_case(case),
        _ => None,
    }
}
