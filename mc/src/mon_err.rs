//! C18: xor catches exactly the catchable failures and reports them faithfully.
//! Per script the monitor records (a) the (ret_code, error_message) of every run that ended in a catchable
//! error and (b) the (error_code, message) arguments of every request of the handler call `h`. The per-script
//! rules are judged here; the caught-vs-uncaught comparison across the three variants of one
//! (failure kind, context, failing peer) is made by `compare_variants` after all scripts were explored.

use crate::host::outcome_code_class;
use crate::netmc::{viol, Action, Cx, Monitor, RunId, State, StateInfo, Viol};
use crate::script::Script;

use serde_json::{json, Value};
use std::collections::{BTreeMap, BTreeSet};

#[derive(Clone, Copy, PartialEq, Eq, Debug)]
enum Role {
    Uncaught,
    Caught,
    /// no instruction fails (successful or waiting left branches): the handler must never run
    NoFailure,
    /// an uncatchable error under an xor: the handler must never run
    Uncatchable,
    Other,
}

pub struct C18 {
    name: String,
    role: Role,
    run_errors: BTreeSet<(i64, String)>,
    handler_args: BTreeSet<(i64, String)>,
    uncatchable_runs: u64,
    quiescent_checked: u64,
    quiescent_without_handler: u64,
}

fn role_of(name: &str) -> Role {
    let parts: Vec<&str> = name.split('/').collect();
    if parts.get(1) == Some(&"no-failure") {
        return Role::NoFailure;
    }
    if parts.get(1) == Some(&"uncatchable-shadowing") {
        return if parts.get(2) == Some(&"xor-left") { Role::Uncatchable } else { Role::Other };
    }
    match parts.last() {
        Some(&"Uncaught") => Role::Uncaught,
        Some(&"Inner") | Some(&"Outer") => Role::Caught,
        _ => Role::Other,
    }
}

impl C18 {
    pub fn new(s: &Script) -> C18 {
        C18 { name: s.name.clone(), role: role_of(&s.name), run_errors: BTreeSet::new(), handler_args: BTreeSet::new(), uncatchable_runs: 0, quiescent_checked: 0, quiescent_without_handler: 0 }
    }
}

impl Monitor for C18 {
    fn on_run(&mut self, cx: &mut Cx, rid: RunId) -> Vec<Viol> {
        let rec = cx.runs[rid as usize].clone();
        let mut out = vec![];
        if rec.panic.is_some() {
            return out;
        }
        match outcome_code_class(rec.ret_code) {
            "catchable" => {
                self.run_errors.insert((rec.ret_code, rec.error_message.clone()));
                if self.role == Role::Caught {
                    out.push(viol("C18/catchable-error-escaped-the-xor", format!("run ended with {} {:?} although the failing instruction is under an xor", rec.ret_code, rec.error_message)));
                }
                if matches!(self.role, Role::NoFailure | Role::Uncatchable) {
                    out.push(viol("C18/unexpected-catchable-error", format!("{} {:?}", rec.ret_code, rec.error_message)));
                }
            }
            "uncatchable" => self.uncatchable_runs += 1,
            _ => {}
        }
        for rq in rec.requests.values() {
            let r = &cx.reqs[*rq as usize];
            if r.function != "h" {
                continue;
            }
            let a = r.args_json();
            let code = a.first().and_then(|x| x.as_i64()).unwrap_or(i64::MIN);
            let msg = a.get(1).and_then(|x| x.as_str()).unwrap_or("<not a string>").to_string();
            self.handler_args.insert((code, msg.clone()));
            match self.role {
                Role::NoFailure => out.push(viol("C18/right-branch-ran-without-a-failure", format!("handler requested with error_code {code}, message {msg:?}; no instruction of the left branch fails"))),
                Role::Uncatchable => out.push(viol("C18/uncatchable-error-caught", format!("handler requested with error_code {code}, message {msg:?}"))),
                Role::Uncaught => out.push(viol("MACHINERY/handler-in-uncaught-variant", self.name.clone())),
                Role::Caught => {
                    if outcome_code_class(code) != "catchable" {
                        out.push(viol("C18/handler-sees-no-catchable-error", format!("handler requested with error_code {code}, message {msg:?}")));
                    }
                }
                Role::Other => {}
            }
        }
        out
    }

    fn on_transition(&mut self, _cx: &mut Cx, _pre: &State, _act: &Action, _run: RunId, _post: &State) -> Vec<Viol> {
        vec![]
    }

    fn on_state(&mut self, cx: &mut Cx, st: &State, info: &StateInfo) -> Vec<Viol> {
        if !info.quiescent {
            return vec![];
        }
        self.quiescent_checked += 1;
        let handler_issued = st.ghosts.issued.keys().any(|(_, rq)| cx.reqs[*rq as usize].function == "h");
        // judged in compare_variants: whether the left branch fails at all is known from the uncaught variant
        if !handler_issued {
            self.quiescent_without_handler += 1;
        }
        vec![]
    }

    fn nontrivial(&self) -> u64 {
        // distinct (code, message) observations of this script
        (self.run_errors.len() + self.handler_args.len()) as u64 + if self.role == Role::Uncatchable { self.uncatchable_runs.min(1) } else { 0 }
    }

    fn extra(&self) -> Value {
        let set = |s: &BTreeSet<(i64, String)>| s.iter().map(|(c, m)| json!([c, m])).collect::<Vec<_>>();
        let mut by = serde_json::Map::new();
        by.insert(self.name.clone(), json!({"role": format!("{:?}", self.role), "run_errors": set(&self.run_errors), "handler_args": set(&self.handler_args), "uncatchable_runs": self.uncatchable_runs, "quiescent_states": self.quiescent_checked, "quiescent_without_handler": self.quiescent_without_handler}));
        json!({"by_script": by})
    }
}

/// (group key -> variant name -> observations). Group = name without the last component.
pub fn compare_variants(by_script: &Value) -> (Vec<(String, String, Vec<String>)>, u64, BTreeMap<String, u64>) {
    let mut groups: BTreeMap<String, BTreeMap<String, Value>> = BTreeMap::new();
    if let Some(m) = by_script.as_object() {
        for (name, v) in m {
            let role = v["role"].as_str().unwrap_or("");
            if role != "Uncaught" && role != "Caught" {
                continue;
            }
            let (group, variant) = name.rsplit_once('/').unwrap_or((name.as_str(), ""));
            groups.entry(group.to_string()).or_default().insert(variant.to_string(), v.clone());
        }
    }
    let mut out = vec![];
    let mut compared = 0u64;
    let mut codes_seen: BTreeMap<String, u64> = BTreeMap::new();
    let errors_of = |v: &Value| -> BTreeSet<String> { v["run_errors"].as_array().map(|a| a.iter().map(|x| x.to_string()).collect()).unwrap_or_default() };
    for (g, vars) in &groups {
        let Some(unc) = vars.get("Uncaught") else { continue };
        for x in unc["run_errors"].as_array().into_iter().flatten() {
            *codes_seen.entry(x[0].to_string()).or_insert(0) += 1;
        }
        // group name: ERR/<kind>/<context>/<failing peer>
        let parts: Vec<&str> = g.split('/').collect();
        let in_par = parts.get(2).map(|c| c.starts_with("par-")).unwrap_or(false);
        for vn in ["Inner", "Outer"] {
            let Some(c) = vars.get(vn) else { continue };
            // A par fails only if both branches fail, so the failure of one branch is not what the uncaught
            // variant's runs end with (they succeed) and an xor around the par has nothing to catch. The xor
            // directly around the failing instruction still catches it: its reference is the same failing
            // instruction uncaught at top level.
            let (want, reference): (BTreeSet<String>, String) = if in_par && vn == "Inner" {
                let top = format!("{}/{}/top/{}", parts[0], parts[1], parts.get(3).unwrap_or(&""));
                match groups.get(&top).and_then(|v| v.get("Uncaught")) {
                    Some(u) => (errors_of(u), format!("{top}/Uncaught")),
                    None => continue,
                }
            } else {
                (errors_of(unc), format!("{g}/Uncaught"))
            };
            let got: BTreeSet<String> = c["handler_args"].as_array().map(|a| a.iter().map(|x| x.to_string()).collect()).unwrap_or_default();
            compared += 1;
            if got != want {
                out.push((
                    "C18/caught-error-differs-from-uncaught-result".to_string(),
                    format!("{reference} ends with {:?}; handler of {g}/{vn} receives {:?}", want, got),
                    vec![reference.clone(), format!("{g}/{vn}")],
                ));
            }
            if !want.is_empty() && c["quiescent_without_handler"].as_u64().unwrap_or(0) > 0 {
                out.push((
                    "C18/right-branch-never-ran".to_string(),
                    format!("{g}/{vn}: {} quiescent states (everything delivered and answered) in which the handler was never requested although the left branch fails with {:?}", c["quiescent_without_handler"], want),
                    vec![reference.clone(), format!("{g}/{vn}")],
                ));
            }
            if c["quiescent_states"].as_u64().unwrap_or(0) == 0 {
                out.push(("MACHINERY/no-quiescent-state".to_string(), format!("{g}/{vn}"), vec![]));
            }
        }
    }
    (out, compared, codes_seen)
}
