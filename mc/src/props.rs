//! Per-property checks: which families, which environment, which monitor, which evidence.

use crate::check::{self, e1_report, run_e1, Report, Tier};
use crate::families;
use crate::mon_local as ml;
use crate::mon_state as ms;
use crate::mon_term as mt;
use crate::netmc::{Cfg, Monitor};
use crate::script::Script;

use serde_json::json;

pub fn stream_map(tier: Tier) -> Vec<Script> {
    let lvl = if tier == Tier::Quick { 0 } else { 1 };
    let mut v = families::stream_family(lvl);
    v.extend(families::map_family(lvl));
    v
}

pub fn seq_scripts(tier: Tier) -> Vec<Script> {
    let v = match tier {
        Tier::Quick => families::seq_family(3, 0),
        Tier::Thorough => families::seq_family(4, 1),
    };
    // scripts the parser rejects are dropped (a null/never leaf replacement can leave a variable undefined);
    // exploring them would only ever see preparation error 1
    let ids: crate::script::PeerIds = ["A", "B", "C", "O"].iter().map(|n| (n.to_string(), crate::host::make_peer(n).id)).collect();
    v.into_iter().filter(|s| air_parser::parse(&crate::script::print(&s.ast, &ids)).is_ok()).collect()
}

pub fn stream_map_err(tier: Tier) -> Vec<Script> {
    let lvl = if tier == Tier::Quick { 0 } else { 1 };
    let mut v = stream_map(tier);
    v.extend(families::err_family(lvl));
    v
}

fn cfg_for(tier: Tier) -> Cfg {
    let budget = |d: f64| std::env::var("VERIF_BUDGET_S").ok().and_then(|s| s.parse().ok()).unwrap_or(d);
    let now = std::time::Instant::now();
    match tier {
        Tier::Quick => Cfg {
            dup: true,
            deliver_return: false,
            deliver_return_families: vec!["SEQ".into(), "ERR".into()],
            wall_cap_s: 60.0,
            state_cap: 60_000,
            deadline: Some(now + std::time::Duration::from_secs_f64(budget(150.0))),
            ..Default::default()
        },
        Tier::Thorough => Cfg {
            dup: true,
            deliver_return: true,
            wall_cap_s: 900.0,
            state_cap: 400_000,
            deadline: Some(now + std::time::Duration::from_secs_f64(budget(2400.0))),
            ..Default::default()
        },
    }
}

const BOUNDS: &str = "3 participating peers (+1 observer), one particle, full breadth-first closure per script unless listed under capped";

/// The monitor that decides property `id` on script `s` (also used by `mc replay`).
pub fn monitor_for(id: &str, s: &Script) -> Option<Box<dyn Monitor>> {
    Some(match id {
        "C02" => Box::new(ml::C02::default()),
        "C03" => Box::new(ml::C03::default()),
        "C04" => Box::new(ml::C04 { allow_catchable: true, ..Default::default() }),
        "C07" => Box::new(ml::C07::new(true)),
        "C09" => Box::new(ml::C09::default()),
        "C10" => Box::new(ml::C10::default()),
        "C12" => Box::new(ml::C12::new(&s.ast)),
        "C20" => Box::new(ml::C20::default()),
        "C08" => Box::new(mt::C08::new(&s.ast, 3)),
        "C11" => Box::new(mt::C11::new(&s.ast)),
        "C13" => Box::new(mt::C13::new(&s.ast)),
        "C05" => Box::new(ms::C05::new(s.family == "SEQ")),
        "C06" => Box::new(ms::C06::new()),
        "C16" => Box::new(ms::C16::new()),
        "C17" => Box::new(ms::C17::new(s.family != "SEQ")),
        "C19" => Box::new(ms::C19::new(s.family == "SEQ")),
        "C18" => Box::new(crate::mon_err::C18::new(s)),
        _ => return None,
    })
}

pub fn check(id: &str, tier: Tier) -> Result<Report, String> {
    ml::selftest_codes()?;
    let cfg = cfg_for(tier);
    let rep = match id {
        "C02" => {
            // ERR first: the non-zero-code runs the contract is about must not depend on the time budget
            let lvl = if tier == Tier::Quick { 0 } else { 1 };
            let mut scripts = families::err_family(lvl);
            scripts.extend(stream_map(tier));
            let res = run_e1("C02", &scripts, &cfg, &|s| monitor_for("C02", s).unwrap(), &["O"]);
            let mut rep = e1_report("C02", "outcome contract per ret_code class evaluated on every distinct run of the honest histories, and on every mutant of the adversarial catalogue (tampered, re-signed and malformed current data: preparation errors, uncatchable errors, code 30000); non-trivial = runs with a non-zero code", &res, &cfg, BOUNDS);
            // the failed-run half of the statement on tampered data: every mutant of the C14 catalogue (singles)
            let adv = crate::adv::sweep(tier, false);
            rep.cov("adversarial_mutants_executed", json!(adv.stats.executed));
            rep.cov("adversarial_ret_codes", json!(adv.stats.codes.iter().map(|(k, v)| (k.to_string(), *v)).collect::<std::collections::BTreeMap<_, _>>()));
            rep.violations.extend(crate::adv::uniq(adv.c02));
            rep
        }
        "C03" => {
            let scripts = stream_map_err(tier);
            let res = run_e1("C03", &scripts, &cfg, &|s| monitor_for("C03", s).unwrap(), &["O"]);
            e1_report("C03", "DataVerify + acceptance by a non-participating observer on every produced data; non-trivial = outputs holding a result of the producing peer that neither input had", &res, &cfg, BOUNDS)
        }
        "C04" => {
            let scripts = stream_map(tier);
            let res = run_e1("C04", &scripts, &cfg, &|s| monitor_for("C04", s).unwrap(), &["O"]);
            let mut rep = e1_report("C04", "ret_code of every run of every schedule checked against the forbidden data-consistency codes; non-trivial = runs where prev and current data are both non-empty and differ in par/fold shape (a real merge)", &res, &cfg, BOUNDS);
            let other = res.extras[0]["other_nonzero_codes"].clone();
            if other.as_object().map(|o| !o.is_empty()).unwrap_or(false) {
                rep.machinery_errors.push(format!("family produced unexpected non-zero codes {other}"));
            }
            rep
        }
        "C07" => {
            let scripts = stream_map_err(tier);
            let res = run_e1("C07", &scripts, &cfg, &|s| monitor_for("C07", s).unwrap(), &["O"]);
            e1_report("C07", "for every distinct non-failing run c=f(a,b): re-runs f(c,b) f(c,a) f(c,c) f(c,empty); non-trivial = runs with c != a", &res, &cfg, BOUNDS)
        }
        "C09" => {
            let scripts = stream_map_err(tier);
            let res = run_e1("C09", &scripts, &cfg, &|s| monitor_for("C09", s).unwrap(), &["O"]);
            e1_report("C09", "result multisets (by content id) of prev/current vs output on every non-failing run; non-trivial = runs where prev and current each hold a result the other lacks", &res, &cfg, BOUNDS)
        }
        "C10" => {
            let scripts = stream_map_err(tier);
            let res = run_e1("C10", &scripts, &cfg, &|s| monitor_for("C10", s).unwrap(), &["O"]);
            e1_report("C10", "TraceGrammar reads every produced trace; non-trivial = traces with a fold of >= 2 iterations or a par inside a fold region", &res, &cfg, BOUNDS)
        }
        "C12" => {
            let scripts = stream_map(tier);
            let res = run_e1("C12", &scripts, &cfg, &|s| monitor_for("C12", s).unwrap(), &["O"]);
            e1_report("C12", "generation order of call-written stream values (matched by content) across consecutive data of a peer; non-trivial = outputs with values from all three sources, or from two with a compacted gap", &res, &cfg, BOUNDS)
        }
        "C20" => {
            let scripts = stream_map_err(tier);
            let res = run_e1("C20", &scripts, &cfg, &|s| monitor_for("C20", s).unwrap(), &["O"]);
            e1_report("C20", "every distinct run executed three times in-process (fresh HashMap seeds per map instance), outcomes compared after decoding; non-trivial = runs whose output stores hold >= 3 entries", &res, &cfg, BOUNDS)
        }
        "C08" => {
            let mut scripts = seq_scripts(tier);
            scripts.extend(stream_map(tier));
            let res = run_e1("C08", &scripts, &cfg, &|s| monitor_for("C08", s).unwrap(), &["O", "O2"]);
            e1_report("C08", "for every quiescent state and every state at depth <= 3: the set of the peers' data merged at observers in every order and in right-nested groupings, and (quiescent states) by every participating peer starting from its own data; same results by content id; identical traces modulo request senders for stream-free scripts; non-trivial = data sets with >= 3 pairwise different members", &res, &cfg, BOUNDS)
        }
        "C11" => {
            let scripts = stream_map(tier);
            let res = run_e1("C11", &scripts, &cfg, &|s| monitor_for("C11", s).unwrap(), &["O"]);
            e1_report("C11", "per state: all data of one history (held or in flight) bind one canon result, all consumers get the same value; per first canonicalization: its elements equal the stream writes preceding it in that run, by (generation, position); non-trivial = states where some data holds more stream values than the canon contains", &res, &cfg, BOUNDS)
        }
        "C13" => {
            let scripts = stream_map(tier);
            let res = run_e1("C13", &scripts, &cfg, &|s| monitor_for("C13", s).unwrap(), &["O"]);
            e1_report("C13", "per local observation (first canonicalization at a peer): observed list = stream writes replayed/performed before it; per state: each value visited at most once per peer; per quiescent state: visits = values of the merged stream; non-trivial = runs where a value reaches the peer through both prev and current data", &res, &cfg, BOUNDS)
        }
        "C16" => {
            let scripts = seq_scripts(tier);
            let res = run_e1("C16", &scripts, &cfg, &|s| monitor_for("C16", s).unwrap(), &["O"]);
            let mut rep = e1_report("C16", "every call request of every schedule compared with the call multiset of the independent sequential evaluator RefEval; non-trivial = scripts in which RefEval takes an xor right branch, skips a match body or iterates a fold >= 2 times (counted per script)", &res, &cfg, BOUNDS);
            rep.cov("requests_compared", res.extras[0]["requests_compared_with_refeval"].clone());
            rep
        }
        "C17" => {
            let mut scripts = seq_scripts(tier);
            scripts.extend(stream_map(tier));
            let res = run_e1("C17", &scripts, &cfg, &|s| monitor_for("C17", s).unwrap(), &["O"]);
            e1_report("C17", "tetraplets of every argument of every distinct call request compared with RefEval (SEQ) or with the producer embedded in the value (STREAM/MAP consumers); non-trivial = arguments whose producer is another peer than the one issuing the request", &res, &cfg, BOUNDS)
        }
        "C05" => {
            let mut scripts = seq_scripts(tier);
            scripts.extend(stream_map(tier));
            let res = run_e1("C05", &scripts, &cfg, &|s| monitor_for("C05", s).unwrap(), &["O"]);
            e1_report("C05", "ghost multisets of issued/answered requests per peer; at-most-once on every transition; every answered result recorded exactly once in every later data of the peer; non-trivial = deliveries to a peer that has pending requests", &res, &cfg, BOUNDS)
        }
        "C06" => {
            let scripts = seq_scripts(tier);
            let cfg = Cfg { bogus: true, ..cfg.clone() };
            let res = run_e1("C06", &scripts, &cfg, &|s| monitor_for("C06", s).unwrap(), &["O"]);
            e1_report("C06", "request ids against a ghost maximum per peer; argument values of downstream calls against RefEval (routing); one result under a non-pending id per path (0, max+1, max+7, consumed id, 2^32-1); non-trivial = states with >= 2 pending requests on one peer plus bogus-id runs", &res, &cfg, BOUNDS)
        }
        "C19" => {
            // failures caught by an xor after the particle was already routed somewhere (ERR family; first,
            // because its graphs are small: a time budget must cut the large graphs, not these)
            // (not the scripts built around an uncatchable error: a run that fails that way keeps the peer's own
            // pending request in its data for good, which is C02's behaviour, not a forwarding defect)
            let mut scripts: Vec<Script> = families::err_family(if tier == Tier::Quick { 0 } else { 1 }).into_iter().filter(|s| !s.name.contains("uncatchable")).collect();
            scripts.extend(seq_scripts(tier));
            scripts.extend(stream_map(tier));
            let res = run_e1("C19", &scripts, &cfg, &|s| monitor_for("C19", s).unwrap(), &["O"]);
            e1_report("C19", "per run: requests only for calls addressed to the peer, new results attributed to the peer, next peers without self/duplicates, newly sent entries imply next peers; per quiescent state: all peers' data merged at an observer hold no sent-but-unexecuted entry; non-trivial = runs that newly mark >= 2 entries as sent", &res, &cfg, BOUNDS)
        }
        "C18" => {
            let lvl = if tier == Tier::Quick { 0 } else { 1 };
            let mut scripts = families::err_family(lvl);
            scripts.extend(families::err_nofail_family());
            let res = run_e1("C18", &scripts, &cfg, &|s| monitor_for("C18", s).unwrap(), &["O"]);
            let mut rep = e1_report("C18", "every schedule of every ERR script (17 failure kinds x 8 contexts x {uncaught, caught inside, caught outside} x failing peer, plus xors whose left branch succeeds or waits and xors over an uncatchable error): per run the handler call must be requested only after a catchable failure and never in the no-failure / uncatchable scripts; per quiescent state of a caught variant the handler was requested; across variants the set of (error_code, message) handed to the handler equals the set of (ret_code, error_message) the uncaught variant's runs end with; non-trivial = distinct (code, message) observations", &res, &cfg, BOUNDS);
            let by = res.extras[0]["by_script"].clone();
            let (diffs, compared, codes_seen) = crate::mon_err::compare_variants(&by);
            for (sig, desc, names) in diffs {
                let pair: Vec<&Script> = names.iter().filter_map(|n| scripts.iter().find(|s| &s.name == n)).collect();
                rep.violations.push(check::Violation {
                    signature: sig,
                    description: desc,
                    replay: json!({"engine": "c18pair", "scripts": pair.iter().map(|s| serde_json::to_value(s).unwrap()).collect::<Vec<_>>(), "tier": tier.name()}),
                });
            }
            rep.cov("variant_pairs_compared", json!(compared));
            rep.cov("uncaught_codes_seen", json!(codes_seen));
            // the per-script observations are large; keep a digest only
            rep.coverage.insert("monitor_counters".into(), json!({"scripts_with_observations": by.as_object().map(|m| m.len()).unwrap_or(0)}));
            if compared == 0 {
                rep.machinery_errors.push("vacuous: no caught/uncaught pair was compared".into());
            }
            rep
        }
        "C25" => crate::e2::check_c25(tier),
        "C26" => crate::e2::check_c26(tier),
        "C21" => crate::e2b::check_c21(tier),
        "C22" => crate::e2b::check_c22(tier),
        "C24" => crate::e2c::check_c24(tier),
        "C27" => crate::e2d::check_c27(tier),
        "C14" => crate::adv::check_c14(tier),
        "C15" => crate::fork::check_c15(tier),
        "C01" => crate::c01::check_c01(tier),
        "C23" => crate::e2f::check_c23(tier),
        "C28" => crate::e2f::check_c28(tier),
        _ => return Err(format!("no check for {id}")),
    };
    let _ = json!(null);
    let _ = check::verif_dir();
    Ok(rep)
}

pub fn replay_other(v: &serde_json::Value) -> i32 {
    if v["engine"].as_str() == Some("e2") {
        if let Some(f) = crate::e2b::replay_case(&v["case"]) {
            let again = crate::e2b::replay_case(&v["case"]).unwrap();
            return crate::e2::replay_verdict(v, f, again);
        }
        return crate::e2::replay(v);
    }
    if matches!(v["engine"].as_str(), Some("c01bytes") | Some("c01script")) {
        return crate::c01::replay(v);
    }
    if v["engine"].as_str() == Some("fork") {
        return crate::fork::replay(v);
    }
    if v["engine"].as_str() == Some("adv") {
        return crate::adv::replay(v);
    }
    if v["engine"].as_str() == Some("c18pair") {
        let scripts: Vec<Script> = v["scripts"].as_array().map(|a| a.iter().filter_map(|x| serde_json::from_value(x.clone()).ok()).collect()).unwrap_or_default();
        let tier = if v["tier"].as_str() == Some("thorough") { Tier::Thorough } else { Tier::Quick };
        let cfg = cfg_for(tier);
        let mut verdicts = vec![];
        for _ in 0..2 {
            let res = run_e1("C18", &scripts, &cfg, &|s| monitor_for("C18", s).unwrap(), &["O"]);
            let (diffs, _, _) = crate::mon_err::compare_variants(&res.extras[0]["by_script"]);
            verdicts.push(diffs);
        }
        if verdicts[0] != verdicts[1] {
            println!("REPLAY-NONDETERMINISTIC");
            return 2;
        }
        let want = v["signature"].as_str().unwrap_or("");
        return match verdicts[0].iter().find(|d| d.0 == want) {
            Some(d) => {
                println!("VIOLATION property=C18 replay={}", v["__path"].as_str().unwrap_or("<file>"));
                println!("reproduced: {}: {}", d.0, d.1);
                1
            }
            None => {
                println!("not reproduced");
                0
            }
        };
    }
    crate::host::elog("unknown replay engine");
    2
}
