//! Per-property checks: which families, which environment, which monitor, which evidence.

use crate::check::{self, e1_report, run_e1, Report, Tier};
use crate::families;
use crate::mon_local as ml;
use crate::netmc::{Cfg, Monitor};
use crate::script::Script;

use serde_json::json;

pub fn stream_map(tier: Tier) -> Vec<Script> {
    let lvl = if tier == Tier::Quick { 0 } else { 1 };
    let mut v = families::stream_family(lvl);
    v.extend(families::map_family(lvl));
    v
}

pub fn stream_map_err(tier: Tier) -> Vec<Script> {
    let lvl = if tier == Tier::Quick { 0 } else { 1 };
    let mut v = stream_map(tier);
    v.extend(families::err_family(lvl));
    v
}

fn cfg_for(tier: Tier) -> Cfg {
    match tier {
        Tier::Quick => Cfg { dup: true, deliver_return: false, wall_cap_s: 40.0, state_cap: 60_000, ..Default::default() },
        Tier::Thorough => Cfg { dup: true, deliver_return: true, wall_cap_s: 900.0, state_cap: 400_000, ..Default::default() },
    }
}

const BOUNDS: &str = "3 participating peers (+1 observer), one particle, full breadth-first closure per script unless listed under capped";

/// The monitor that decides property `id` on script `s` (also used by `mc replay`).
pub fn monitor_for(id: &str, s: &Script) -> Option<Box<dyn Monitor>> {
    Some(match id {
        "C02" => Box::new(ml::C02::default()),
        "C03" => Box::new(ml::C03::default()),
        "C04" => Box::new(ml::C04 { allow_catchable: true, ..Default::default() }),
        "C07" => Box::new(ml::C07::new(true)),
        "C09" => Box::new(ml::C09::default()),
        "C10" => Box::new(ml::C10::default()),
        "C12" => Box::new(ml::C12::new(&s.ast)),
        "C20" => Box::new(ml::C20::default()),
        _ => return None,
    })
}

pub fn check(id: &str, tier: Tier) -> Result<Report, String> {
    ml::selftest_codes()?;
    let cfg = cfg_for(tier);
    let rep = match id {
        "C02" => {
            let scripts = stream_map_err(tier);
            let res = run_e1("C02", &scripts, &cfg, &|s| monitor_for("C02", s).unwrap(), &["O"]);
            e1_report("C02", "outcome contract per ret_code class evaluated on every distinct run; non-trivial = runs with a non-zero code", &res, &cfg, BOUNDS)
        }
        "C03" => {
            let scripts = stream_map_err(tier);
            let res = run_e1("C03", &scripts, &cfg, &|s| monitor_for("C03", s).unwrap(), &["O"]);
            e1_report("C03", "DataVerify + acceptance by a non-participating observer on every produced data; non-trivial = outputs holding a result of the producing peer that neither input had", &res, &cfg, BOUNDS)
        }
        "C04" => {
            let scripts = stream_map(tier);
            let res = run_e1("C04", &scripts, &cfg, &|s| monitor_for("C04", s).unwrap(), &["O"]);
            let mut rep = e1_report("C04", "ret_code of every run of every schedule checked against the forbidden data-consistency codes; non-trivial = runs where prev and current data are both non-empty and differ in par/fold shape (a real merge)", &res, &cfg, BOUNDS);
            let other = res.extras[0]["other_nonzero_codes"].clone();
            if other.as_object().map(|o| !o.is_empty()).unwrap_or(false) {
                rep.machinery_errors.push(format!("family produced unexpected non-zero codes {other}"));
            }
            rep
        }
        "C07" => {
            let scripts = stream_map_err(tier);
            let res = run_e1("C07", &scripts, &cfg, &|s| monitor_for("C07", s).unwrap(), &["O"]);
            e1_report("C07", "for every distinct non-failing run c=f(a,b): re-runs f(c,b) f(c,a) f(c,c) f(c,empty); non-trivial = runs with c != a", &res, &cfg, BOUNDS)
        }
        "C09" => {
            let scripts = stream_map_err(tier);
            let res = run_e1("C09", &scripts, &cfg, &|s| monitor_for("C09", s).unwrap(), &["O"]);
            e1_report("C09", "result multisets (by content id) of prev/current vs output on every non-failing run; non-trivial = runs where prev and current each hold a result the other lacks", &res, &cfg, BOUNDS)
        }
        "C10" => {
            let scripts = stream_map_err(tier);
            let res = run_e1("C10", &scripts, &cfg, &|s| monitor_for("C10", s).unwrap(), &["O"]);
            e1_report("C10", "TraceGrammar reads every produced trace; non-trivial = traces with a fold of >= 2 iterations or a par inside a fold region", &res, &cfg, BOUNDS)
        }
        "C12" => {
            let scripts = stream_map(tier);
            let res = run_e1("C12", &scripts, &cfg, &|s| monitor_for("C12", s).unwrap(), &["O"]);
            e1_report("C12", "generation order of call-written stream values (matched by content) across consecutive data of a peer; non-trivial = outputs with values from all three sources, or from two with a compacted gap", &res, &cfg, BOUNDS)
        }
        "C20" => {
            let scripts = stream_map_err(tier);
            let res = run_e1("C20", &scripts, &cfg, &|s| monitor_for("C20", s).unwrap(), &["O"]);
            e1_report("C20", "every distinct run executed three times in-process (fresh HashMap seeds per map instance), outcomes compared after decoding; non-trivial = runs whose output stores hold >= 3 entries", &res, &cfg, BOUNDS)
        }
        _ => return Err(format!("no check for {id}")),
    };
    let _ = json!(null);
    let _ = check::verif_dir();
    Ok(rep)
}

pub fn replay_other(_v: &serde_json::Value) -> i32 {
    crate::host::elog("unknown replay engine");
    2
}
