//! Monitors over states / quiescent states: C08 (order independence), C11 (canon fixed once), C13 (streams hold
//! exactly the merged appends; folds visit each value once).

use crate::data::{CallSt, CanonSt, Dec, Ent};
use crate::mon_local::{stream_writers, view};
use crate::netmc::{viol, BlobId, Cx, Monitor, RunId, State, StateInfo, Viol};
use crate::script::{self, Arg, Out, I};

use serde_json::{json, Value};
use std::collections::{BTreeMap, BTreeSet, HashSet};

fn class(code: i64) -> &'static str {
    crate::host::outcome_code_class(code)
}

// ---------------------------------------------------------------------------------------------
// shared: what a first canonicalization must contain

/// Canon sites of the script that are not inside a fold: (source stream, literal peer name)
fn canon_sites(ast: &I) -> Vec<(String, Option<String>, bool)> {
    fn go(i: &I, in_fold: bool, out: &mut Vec<(String, Option<String>, bool)>) {
        match i {
            I::Canon { peer, src, .. } => {
                let p = if let script::PeerRef::Name(n) = peer { Some(n.clone()) } else { None };
                out.push((src.clone(), p, in_fold));
            }
            I::Seq(a, b) | I::Par(a, b) | I::Xor(a, b) => {
                go(a, in_fold, out);
                go(b, in_fold, out);
            }
            I::Fold { body, last, .. } => {
                go(body, true, out);
                if let Some(l) = last {
                    go(l, true, out);
                }
            }
            I::New(_, b) | I::Match(_, _, b) | I::Mismatch(_, _, b) => go(b, in_fold, out),
            _ => {}
        }
    }
    let mut v = vec![];
    go(ast, false, &mut v);
    v
}

/// literal `ap` writers: stream -> literal texts (JSON) in script order
fn ap_literals(ast: &I) -> BTreeMap<String, Vec<String>> {
    let mut m: BTreeMap<String, Vec<String>> = BTreeMap::new();
    script::walk(ast, &mut |x| {
        if let I::Ap { src: Arg::Str(s), dst } = x {
            if dst.starts_with('$') {
                m.entry(dst.clone()).or_default().push(Value::String(s.clone()).to_string());
            }
        }
    });
    m
}

/// The values written to `stream` by the entries preceding position `upto` of the trace, ordered by
/// (generation, position). Returns None if some writer cannot be attributed (then the check is skipped).
fn writes_before(dec: &Dec, upto: usize, stream: &str, writers: &BTreeMap<String, String>, aps: &BTreeMap<String, Vec<String>>, only_stream_with_ap: bool) -> Option<Vec<String>> {
    let mut items: Vec<(u32, usize, String)> = vec![];
    let mut ap_seen = 0usize;
    for (pos, e) in dec.trace.iter().enumerate().take(upto) {
        match e {
            Ent::Call(CallSt::Exec { kind: 't', cid, generation: Some(g) }) => {
                let text = dec.srv(cid)?.value?;
                let v: Value = serde_json::from_str(&text).ok()?;
                let f = v["f"].as_str()?;
                match writers.get(f) {
                    Some(s) if s == stream => items.push((*g, pos, crate::host::canon_json_text(&v))),
                    Some(_) => {}
                    None => return None,
                }
            }
            Ent::Ap(gens) if gens.len() == 1 => {
                // literal ap writers: attributable only if the script has ap writers into exactly one stream
                if !only_stream_with_ap {
                    return None;
                }
                if let Some(lits) = aps.get(stream) {
                    let lit = lits.get(ap_seen.min(lits.len().saturating_sub(1)))?;
                    items.push((gens[0], pos, lit.clone()));
                    ap_seen += 1;
                }
            }
            _ => {}
        }
    }
    items.sort();
    Some(items.into_iter().map(|x| x.2).collect())
}

struct CanonCtx {
    sites: Vec<(String, Option<String>, bool)>,
    writers: BTreeMap<String, String>,
    aps: BTreeMap<String, Vec<String>>,
    /// true if the check of first canonicalizations applies: exactly one canon site, outside folds, on a plain stream
    applicable: bool,
    ap_single_stream: bool,
}

impl CanonCtx {
    fn new(ast: &I) -> CanonCtx {
        let sites = canon_sites(ast);
        let aps = ap_literals(ast);
        // ap writers with a non-literal source (e.g. `(ap i $t)`) make ap entries unattributable
        let mut other_ap = false;
        script::walk(ast, &mut |x| {
            if let I::Ap { src, dst } = x {
                if dst.starts_with('$') && !matches!(src, Arg::Str(_)) {
                    other_ap = true;
                }
            }
        });
        let applicable = sites.len() == 1 && !sites[0].2 && sites[0].0.starts_with('$');
        CanonCtx { ap_single_stream: aps.len() <= 1 && !other_ap, sites, writers: stream_writers(ast), aps, applicable }
    }
}

/// For a run in which a canon result appears that neither input had: compare its elements with the writes that
/// precede the canon entry in the output trace.
fn check_first_canon(cx: &Cx, rid: RunId, cc: &CanonCtx, tag_prefix: &str, counter: &mut u64, bigger_elsewhere: &mut u64) -> Vec<Viol> {
    let v = view(cx, rid);
    let mut out = vec![];
    if !cc.applicable || v.rec.panic.is_some() || !matches!(class(v.rec.ret_code), "ok" | "catchable") {
        return out;
    }
    let Some(dec) = &v.out else { return out };
    let (mp, mc) = (v.prev.result_multiset(), v.cur.result_multiset());
    for (pos, e) in dec.trace.iter().enumerate() {
        let Ent::Canon(CanonSt::Exec(cid)) = e else { continue };
        let key = format!("canon:{cid}");
        if mp.contains_key(&key) || mc.contains_key(&key) {
            continue;
        }
        let stream = &cc.sites[0].0;
        let Some(expected) = writes_before(dec, pos, stream, &cc.writers, &cc.aps, cc.ap_single_stream) else { continue };
        let Some(agg) = dec.canon(cid) else { continue };
        let got: Vec<String> = agg
            .elems
            .iter()
            .map(|e| e.value.as_ref().and_then(|t| serde_json::from_str::<Value>(t).ok()).map(|v| crate::host::canon_json_text(&v)).unwrap_or_default())
            .collect();
        *counter += 1;
        if expected.len() >= 2 {
            *bigger_elsewhere += 1;
        }
        if got != expected {
            let kind = if got.len() < expected.len() {
                "value-missing"
            } else if got.len() > expected.len() {
                "value-duplicated-or-extra"
            } else {
                "order-differs"
            };
            out.push(viol(
                &format!("{tag_prefix}/{kind}"),
                format!("peer {} canonicalized {stream}: canon holds {got:?}, the writes replayed/performed before it in this run are {expected:?}", cx.world.peers[v.rec.peer].name),
            ));
        }
    }
    out
}

// ---------------------------------------------------------------------------------------------
// C11

pub struct C11 {
    cc: CanonCtx,
    pub first_canons: u64,
    pub multi: u64,
    pub states_with_canon: u64,
    pub nontrivial_states: u64,
    /// scripts with `(fold #canon i ... (call P ("s" "visit") [i]) ...)`: the iterations are the elements of the
    /// canonical value, whoever runs the fold and whatever reached the stream later
    canon_fold: bool,
    /// the folded canonical value is a stream map: a fold over it yields one pair per distinct key
    canon_fold_is_map: bool,
    pub canon_fold_states: u64,
    pub canon_fold_quiescent: u64,
}

impl C11 {
    pub fn new(ast: &I) -> C11 {
        let mut canon_fold = false;
        let mut canon_fold_is_map = false;
        let mut ncanon = 0;
        script::walk(ast, &mut |x| {
            if matches!(x, I::Canon { .. }) {
                ncanon += 1;
            }
            if let I::Fold { iterable: it @ (Arg::Canon(_) | Arg::CanonMap(_)), iter, body, .. } = x {
                if matches!(it, Arg::CanonMap(_)) {
                    canon_fold_is_map = true;
                }
                script::walk(body, &mut |y| {
                    if let I::Call { func, args, .. } = y {
                        if func == "visit" && args.first() == Some(&Arg::Var(iter.clone())) {
                            canon_fold = true;
                        }
                    }
                });
            }
        });
        C11 { cc: CanonCtx::new(ast), first_canons: 0, multi: 0, states_with_canon: 0, nontrivial_states: 0, canon_fold: canon_fold && ncanon == 1, canon_fold_is_map, canon_fold_states: 0, canon_fold_quiescent: 0 }
    }

    fn canon_fold_state(&mut self, cx: &mut Cx, st: &State, info: &StateInfo) -> Vec<Viol> {
        let mut out = vec![];
        let mut blobs: BTreeSet<BlobId> = st.prev.iter().cloned().collect();
        blobs.extend(st.inflight.iter().map(|(_, b)| *b));
        // elements of the canonical value, from any data that holds it
        let mut elems: Option<Vec<String>> = None;
        for b in &blobs {
            if let Some(d) = cx.dec(*b) {
                if let Some(c) = canon_cids(&d).first() {
                    if let Some(a) = d.canon(c) {
                        let v: Option<Vec<String>> = a.elems.iter().map(|e| e.value.as_ref().and_then(|t| serde_json::from_str::<Value>(t).ok()).map(|v| crate::host::canon_json_text(&v))).collect();
                        if let Some(v) = v {
                            elems = Some(v);
                            break;
                        }
                    }
                }
            }
        }
        let mut visited: BTreeMap<(u8, String), u32> = BTreeMap::new();
        for ((p, rq), n) in st.ghosts.issued.iter() {
            let r = &cx.reqs[*rq as usize];
            if r.function == "visit" {
                *visited.entry((*p, r.args.first().cloned().unwrap_or_default())).or_insert(0) += n;
            }
        }
        if visited.is_empty() && elems.is_none() {
            return out;
        }
        self.canon_fold_states += 1;
        let Some(elems) = elems else {
            out.push(viol("C11/fold-over-canon-iterates-without-a-canonical-value", format!("visit calls {visited:?} were issued although no data of the history holds the canonical value")));
            return out;
        };
        let eset: BTreeMap<String, u32> = elems.iter().fold(BTreeMap::new(), |mut m, e| {
            *m.entry(e.clone()).or_insert(0) += 1;
            m
        });
        let mut vis: BTreeMap<String, u32> = BTreeMap::new();
        for ((_, v), n) in &visited {
            *vis.entry(v.clone()).or_insert(0) += n;
        }
        for (v, n) in &vis {
            if n > eset.get(v).unwrap_or(&0) {
                out.push(viol("C11/fold-over-canon-visits-a-value-the-canon-does-not-hold", format!("visit called {n} times with {v}; the canonical value holds {elems:?}")));
            }
        }
        if info.quiescent {
            self.canon_fold_quiescent += 1;
            let complete = if self.canon_fold_is_map {
                // one visit per distinct key (which of the pairs of a key is shown is the map's business)
                let key_of = |t: &String| serde_json::from_str::<Value>(t).ok().map(|v| v["key"].to_string()).unwrap_or_default();
                let mut per_key: BTreeMap<String, u32> = BTreeMap::new();
                for (v, n) in &vis {
                    *per_key.entry(key_of(v)).or_insert(0) += n;
                }
                let keys: BTreeSet<String> = eset.keys().map(key_of).collect();
                per_key.keys().cloned().collect::<BTreeSet<_>>() == keys && per_key.values().all(|n| *n == 1)
            } else {
                vis == eset
            };
            if !complete {
                out.push(viol("C11/fold-over-canon-does-not-visit-every-element", format!("after everything was delivered the visits are {vis:?}; the canonical value holds {elems:?}")));
            }
        }
        out
    }
}

fn canon_cids(d: &Dec) -> Vec<String> {
    d.trace.iter().filter_map(|e| if let Ent::Canon(CanonSt::Exec(c)) = e { Some(c.clone()) } else { None }).collect()
}

fn stream_value_count(d: &Dec) -> usize {
    d.trace.iter().filter(|e| matches!(e, Ent::Call(CallSt::Exec { kind: 't', .. }) | Ent::Ap(_))).count()
}

impl Monitor for C11 {
    fn on_run(&mut self, cx: &mut Cx, rid: RunId) -> Vec<Viol> {
        let mut a = 0;
        let mut b = 0;
        let v = check_first_canon(cx, rid, &self.cc, "C11/canon-differs-from-designated-peers-stream", &mut a, &mut b);
        self.first_canons += a;
        self.multi += b;
        v
    }
    fn on_state(&mut self, cx: &mut Cx, st: &State, info: &StateInfo) -> Vec<Viol> {
        let mut out = vec![];
        if self.canon_fold {
            out.extend(self.canon_fold_state(cx, st, info));
        }
        if !self.cc.applicable {
            return out;
        }
        // one history: every data held or in flight must agree on the canon result of the single canon instruction
        let mut blobs: BTreeSet<BlobId> = st.prev.iter().cloned().collect();
        blobs.extend(st.inflight.iter().map(|(_, b)| *b));
        let mut cids: BTreeMap<String, BlobId> = BTreeMap::new();
        let mut max_stream = 0usize;
        let mut canon_len = 0usize;
        for b in &blobs {
            if let Some(d) = cx.dec(*b) {
                max_stream = max_stream.max(stream_value_count(&d));
                for c in canon_cids(&d) {
                    canon_len = d.canon(&c).map(|a| a.elems.len()).unwrap_or(0);
                    cids.entry(c).or_insert(*b);
                }
            }
        }
        if !cids.is_empty() {
            self.states_with_canon += 1;
            if max_stream > canon_len {
                self.nontrivial_states += 1;
            }
        }
        if cids.len() > 1 {
            out.push(viol("C11/two-canon-values-in-one-history", format!("data of one history bind different canonical values: {:?}", cids.keys().collect::<Vec<_>>())));
        }
        // all observer requests that take the canon as (first) argument carry the same value
        let mut args: BTreeSet<String> = BTreeSet::new();
        for ((_, rq), _) in st.ghosts.issued.iter() {
            let r = &cx.reqs[*rq as usize];
            if r.function == "obs" {
                if let Some(a) = r.args.first() {
                    args.insert(a.clone());
                }
            }
        }
        if args.len() > 1 {
            out.push(viol("C11/consumers-see-different-canon-values", format!("obs calls of one history were handed different canonical values: {args:?}")));
        }
        out
    }
    fn nontrivial(&self) -> u64 {
        self.nontrivial_states
    }
    fn extra(&self) -> Value {
        json!({"first_canonicalizations_compared": self.first_canons, "with_two_or_more_values": self.multi, "states_holding_a_canon": self.states_with_canon, "fold_over_canon_states_checked": self.canon_fold_states, "fold_over_canon_quiescent_states_compared": self.canon_fold_quiescent})
    }
}

// ---------------------------------------------------------------------------------------------
// C13

pub struct C13 {
    cc: CanonCtx,
    pub observations: u64,
    pub multi: u64,
    pub both_ways: u64,
    pub quiescent_compared: u64,
    /// stream folds that are not nested in another fold, iterate with `next` and call ("s" "visit*") [iterator] on a
    /// fixed peer: (stream, visit function, peer). The functions are distinct per fold.
    folds: Vec<(String, String, String)>,
    /// per fold: the writers (function names, literal texts) of its stream that come before the fold in the script
    /// or sit inside it; a value appended after the fold has finished is not one the fold has to visit
    fold_writers: Vec<(BTreeSet<String>, BTreeSet<String>)>,
    /// route scripts: the fold body calls `<value>.peer ("s" "route...") [value]`, the visit is that call
    route_fn: Option<String>,
    merged: HashSet<Vec<BlobId>>,
}

impl C13 {
    pub fn new(ast: &I) -> C13 {
        // top-level folds over a global stream whose body calls ("s" "visit*") [iterator] on a fixed peer and iterates
        // with `next` (a body without `next` visits only the first value of a generation: "visits each value"
        // presupposes it). Recursion (the body appends to the folded stream) is fine. Folds nested in another fold run
        // once per outer iteration and are left out, as is any script where two folds share a visit function.
        fn collect(i: &I, depth: u32, out: &mut Vec<(String, String, String)>) {
            match i {
                I::Seq(a, b) | I::Par(a, b) | I::Xor(a, b) => {
                    collect(a, depth, out);
                    collect(b, depth, out);
                }
                I::New(_, b) | I::Match(_, _, b) | I::Mismatch(_, _, b) => collect(b, depth, out),
                I::Fold { iterable, iter, body, last } => {
                    if let (Arg::Stream(s), 0) = (iterable, depth) {
                        let mut has_next = false;
                        let mut visit: Vec<(String, String)> = vec![];
                        script::walk(body, &mut |y| match y {
                            I::Next(n) if n == iter => has_next = true,
                            I::Call { peer: script::PeerRef::Name(p), func, args, .. } if func.starts_with("visit") && args.first() == Some(&Arg::Var(iter.clone())) && args.len() == 1 => visit.push((func.clone(), p.clone())),
                            _ => {}
                        });
                        if has_next && visit.len() == 1 {
                            out.push((s.clone(), visit[0].0.clone(), visit[0].1.clone()));
                        }
                    }
                    collect(body, depth + 1, out);
                    if let Some(l) = last {
                        collect(l, depth + 1, out);
                    }
                }
                _ => {}
            }
        }
        let mut folds = vec![];
        collect(ast, 0, &mut folds);
        // writers in script order, with the index of the enclosing top-level stream fold (by visit function) if any
        fn writers_in_order(i: &I, top_fold: Option<usize>, nfold: &mut usize, out: &mut Vec<(String, bool, String, Option<usize>)>) {
            match i {
                I::Seq(a, b) | I::Par(a, b) | I::Xor(a, b) => {
                    writers_in_order(a, top_fold, nfold, out);
                    writers_in_order(b, top_fold, nfold, out);
                }
                I::New(_, b) | I::Match(_, _, b) | I::Mismatch(_, _, b) => writers_in_order(b, top_fold, nfold, out),
                I::Fold { body, last, .. } => {
                    let me = if top_fold.is_none() {
                        *nfold += 1;
                        Some(*nfold - 1)
                    } else {
                        top_fold
                    };
                    // marker: a fold starts here
                    if top_fold.is_none() {
                        out.push((String::new(), false, String::new(), me));
                    }
                    writers_in_order(body, me, nfold, out);
                    if let Some(l) = last {
                        writers_in_order(l, me, nfold, out);
                    }
                }
                I::Call { func, out: Out::Stream(s), .. } => out.push((s.clone(), false, func.clone(), top_fold)),
                I::Ap { src: Arg::Str(t), dst } if dst.starts_with('$') => out.push((dst.clone(), true, Value::String(t.clone()).to_string(), top_fold)),
                _ => {}
            }
        }
        let mut order = vec![];
        writers_in_order(ast, None, &mut 0, &mut order);
        // top-level folds of any kind are numbered in script order; map the collected stream folds onto that numbering
        let mut top_fold_ids: Vec<usize> = vec![];
        {
            fn number(i: &I, depth: u32, n: &mut usize, folds: &[(String, String, String)], out: &mut Vec<usize>) {
                match i {
                    I::Seq(a, b) | I::Par(a, b) | I::Xor(a, b) => {
                        number(a, depth, n, folds, out);
                        number(b, depth, n, folds, out);
                    }
                    I::New(_, b) | I::Match(_, _, b) | I::Mismatch(_, _, b) => number(b, depth, n, folds, out),
                    I::Fold { body, .. } => {
                        if depth == 0 {
                            let id = *n;
                            *n += 1;
                            let mut mine = false;
                            script::walk(body, &mut |y| {
                                if let I::Call { func, .. } = y {
                                    if folds.iter().any(|f| &f.1 == func) {
                                        mine = true;
                                    }
                                }
                            });
                            if mine {
                                out.push(id);
                            }
                        }
                    }
                    _ => {}
                }
            }
            number(ast, 0, &mut 0, &folds, &mut top_fold_ids);
        }
        let mut fold_writers = vec![];
        for (k, (fs, _, _)) in folds.iter().enumerate() {
            let my_id = top_fold_ids.get(k).copied();
            let mut funcs = BTreeSet::new();
            let mut lits = BTreeSet::new();
            let mut started = false;
            for (stream, is_lit, text, fold_id) in &order {
                if stream.is_empty() {
                    if *fold_id == my_id {
                        started = true;
                    }
                    continue;
                }
                let inside = fold_id.is_some() && *fold_id == my_id;
                if stream == fs && (!started || inside) {
                    if *is_lit {
                        lits.insert(text.clone());
                    } else {
                        funcs.insert(text.clone());
                    }
                }
            }
            fold_writers.push((funcs, lits));
        }
        if top_fold_ids.len() != folds.len() {
            folds.clear();
            fold_writers.clear();
        }
        // every visit function must belong to exactly one call site of the script
        let mut sites: BTreeMap<String, u32> = BTreeMap::new();
        script::walk(ast, &mut |x| {
            if let I::Call { func, .. } = x {
                if func.starts_with("visit") {
                    *sites.entry(func.clone()).or_insert(0) += 1;
                }
            }
        });
        if folds.iter().any(|(_, f, _)| sites.get(f) != Some(&1)) {
            folds.clear();
            fold_writers.clear();
        }
        let mut route_fn = None;
        script::walk(ast, &mut |x| {
            if let I::Fold { iterable: Arg::Stream(_), body, .. } = x {
                script::walk(body, &mut |y| {
                    if let I::Call { peer: script::PeerRef::Lens(_, l), func, .. } = y {
                        if func.starts_with("route") && l == ".peer" {
                            route_fn = Some(func.clone());
                        }
                    }
                });
            }
        });
        C13 { cc: CanonCtx::new(ast), observations: 0, multi: 0, both_ways: 0, quiescent_compared: 0, folds, fold_writers, route_fn, merged: HashSet::new() }
    }
}

impl C13 {
    /// Route scripts: every value of the stream that is not marked done is visited (its hop call issued) exactly
    /// once, at the peer it names.
    fn route_state(&mut self, cx: &mut Cx, st: &State, info: &StateInfo, rf: &str) -> Vec<Viol> {
        let mut out = vec![];
        // (peer index, argument text) -> times issued
        let mut visited: BTreeMap<(usize, String), u32> = BTreeMap::new();
        for ((p, rq), n) in st.ghosts.issued.iter() {
            let r = &cx.reqs[*rq as usize];
            if r.function == rf {
                if let Some(a) = r.args.first() {
                    *visited.entry((*p as usize, a.clone())).or_insert(0) += n;
                }
            }
        }
        for ((p, v), n) in &visited {
            if *n > 1 {
                out.push(viol("C13/value-visited-more-than-once", format!("peer {} issued the hop call for {v} {n} times", cx.world.peers[*p].name)));
            }
        }
        if !info.quiescent || !self.merged.insert(st.prev.clone()) {
            return out;
        }
        let obs = cx.world.nact;
        if obs >= cx.world.peers.len() {
            return out;
        }
        let mut acc: Vec<u8> = vec![];
        for b in &st.prev {
            let cur = cx.bytes(*b).to_vec();
            match cx.run_bytes(obs, &acc, &cur, &Default::default()) {
                Ok(o) if o.ret_code == 0 => acc = o.data,
                _ => return out,
            }
        }
        let Ok(d) = crate::data::decode(&acc) else { return out };
        self.quiescent_compared += 1;
        let mut nvalues = 0;
        for e in &d.trace {
            if let Ent::Call(CallSt::Exec { kind: 't', cid, .. }) = e {
                let Some(text) = d.srv(cid).and_then(|a| a.value) else { continue };
                let Ok(v) = serde_json::from_str::<Value>(&text) else { continue };
                if v["f"].as_str() != Some(rf) {
                    continue;
                }
                nvalues += 1;
                if v["done"].as_bool() == Some(true) {
                    continue;
                }
                let Some(pi) = v["peer"].as_str().and_then(|id| cx.world.peer_idx_by_id(id)) else { continue };
                let key = (pi, crate::host::canon_json_text(&v));
                if !visited.contains_key(&key) {
                    out.push(viol(
                        "C13/value-never-visited",
                        format!("after everything was delivered the merged stream holds {} route values; the value {} (hop {} of the route) was never visited: peer {} never issued its hop call, the fold stopped there", nvalues, key.1, v["n"], cx.world.peers[pi].name),
                    ));
                }
            }
        }
        out
    }
}

impl Monitor for C13 {
    fn on_run(&mut self, cx: &mut Cx, rid: RunId) -> Vec<Viol> {
        let mut a = 0;
        let mut b = 0;
        let v = check_first_canon(cx, rid, &self.cc, "C13/stream-observation", &mut a, &mut b);
        self.observations += a;
        self.multi += b;
        // non-trivial: a value reaches the peer both through prev and through current data
        let vw = view(cx, rid);
        let has = |d: &Dec| -> BTreeSet<String> {
            d.trace.iter().filter_map(|e| if let Ent::Call(CallSt::Exec { kind: 't', cid, .. }) = e { Some(cid.clone()) } else { None }).collect()
        };
        if has(&vw.prev).intersection(&has(&vw.cur)).next().is_some() {
            self.both_ways += 1;
        }
        v
    }
    fn on_state(&mut self, cx: &mut Cx, st: &State, info: &StateInfo) -> Vec<Viol> {
        let mut out = vec![];
        if let Some(rf) = self.route_fn.clone() {
            return self.route_state(cx, st, info, &rf);
        }
        if self.folds.is_empty() {
            return out;
        }
        // visits: at most once per value, fold and peer, in every state
        let mut visited_by_fold: Vec<BTreeMap<String, u32>> = vec![];
        for (_, vf, vp) in &self.folds {
            let pidx = cx.world.peers.iter().position(|p| &p.name == vp).unwrap_or(0);
            let mut visited: BTreeMap<String, u32> = BTreeMap::new();
            for ((p, rq), n) in st.ghosts.issued.iter() {
                let r = &cx.reqs[*rq as usize];
                if &r.function == vf {
                    if *p as usize != pidx {
                        continue;
                    }
                    *visited.entry(r.args.first().cloned().unwrap_or_default()).or_insert(0) += n;
                }
            }
            for (v, n) in &visited {
                if *n > 1 {
                    out.push(viol("C13/value-visited-more-than-once", format!("peer {vp} issued the {vf} call for {v} {n} times")));
                }
            }
            visited_by_fold.push(visited);
        }
        if !info.quiescent || !self.merged.insert(st.prev.clone()) {
            return out;
        }
        // everything delivered: the visits equal the values of the merged stream
        let obs = cx.world.nact;
        if obs >= cx.world.peers.len() {
            return out;
        }
        let mut acc: Vec<u8> = vec![];
        for b in &st.prev {
            let cur = cx.bytes(*b).to_vec();
            match cx.run_bytes(obs, &acc, &cur, &Default::default()) {
                Ok(o) if o.ret_code == 0 => acc = o.data,
                _ => return out,
            }
        }
        let Ok(d) = crate::data::decode(&acc) else { return out };
        self.quiescent_compared += 1;
        for (k, (fs, vf, vp)) in self.folds.iter().enumerate() {
            let mut values: BTreeSet<String> = BTreeSet::new();
            for e in &d.trace {
                if let Ent::Call(CallSt::Exec { kind: 't', cid, .. }) = e {
                    if let Some(text) = d.srv(cid).and_then(|a| a.value) {
                        if let Ok(v) = serde_json::from_str::<Value>(&text) {
                            if v["f"].as_str().map(|f| self.cc.writers.get(f) == Some(fs) && self.fold_writers[k].0.contains(f)).unwrap_or(false) {
                                values.insert(crate::host::canon_json_text(&v));
                            }
                        }
                    }
                }
            }
            if let Some(lits) = self.cc.aps.get(fs) {
                // literal writers execute wherever the particle is: present iff some data holds an ap entry
                if d.trace.iter().any(|e| matches!(e, Ent::Ap(_))) {
                    for l in lits {
                        if self.fold_writers[k].1.contains(l) {
                            values.insert(l.clone());
                        }
                    }
                }
            }
            let seen: BTreeSet<String> = visited_by_fold[k].keys().cloned().collect();
            if seen != values {
                let missing: Vec<&String> = values.difference(&seen).collect();
                let extra: Vec<&String> = seen.difference(&values).collect();
                let kind = if !missing.is_empty() { "value-never-visited" } else { "visited-value-not-in-stream" };
                out.push(viol(&format!("C13/{kind}"), format!("after everything was delivered peer {vp} visited ({vf}) {seen:?}; the merged stream {fs} holds {values:?}; missing {missing:?} extra {extra:?}")));
            }
        }
        out
    }
    fn nontrivial(&self) -> u64 {
        self.both_ways.min(self.observations + self.quiescent_compared)
    }
    fn extra(&self) -> Value {
        json!({"local_observations_compared": self.observations, "observations_with_two_or_more_values": self.multi, "runs_with_a_value_in_both_prev_and_current": self.both_ways, "quiescent_states_visits_compared": self.quiescent_compared})
    }
}

// ---------------------------------------------------------------------------------------------
// C08

pub struct C08 {
    pub stream_free: bool,
    pub sets_merged: u64,
    pub orders_run: u64,
    pub nontrivial: u64,
    done: HashSet<Vec<BlobId>>,
    max_depth_intermediate: u32,
}

impl C08 {
    pub fn new(ast: &I, max_depth_intermediate: u32) -> C08 {
        let mut stream_free = true;
        script::walk(ast, &mut |x| match x {
            I::Call { out: script::Out::Stream(_), .. } | I::Canon { .. } | I::ApMap { .. } => stream_free = false,
            I::Ap { dst, .. } if dst.starts_with('$') || dst.starts_with('%') => stream_free = false,
            I::Fold { iterable: Arg::Stream(_) | Arg::StreamMap(_), .. } => stream_free = false,
            _ => {}
        });
        C08 { stream_free, sets_merged: 0, orders_run: 0, nontrivial: 0, done: HashSet::new(), max_depth_intermediate }
    }
}

fn permutations(n: usize) -> Vec<Vec<usize>> {
    if n == 0 {
        return vec![vec![]];
    }
    let mut out = vec![];
    for p in permutations(n - 1) {
        for i in 0..=p.len() {
            let mut q = p.clone();
            q.insert(i, n - 1);
            out.push(q);
        }
    }
    out
}

/// Trace with the sender of pending requests erased (and generations, for stream scripts).
fn knowledge(d: &Dec) -> BTreeMap<String, usize> {
    d.result_multiset()
}

fn normalized_trace(d: &Dec, erase_generations: bool) -> Vec<String> {
    d.trace
        .iter()
        .map(|e| match e {
            Ent::Call(CallSt::Sent { .. }) => "call-sent".to_string(),
            Ent::Canon(CanonSt::Sent(_)) => "canon-sent".to_string(),
            Ent::Call(CallSt::Exec { kind, cid, .. }) if erase_generations => format!("exec-{kind}:{cid}"),
            Ent::Ap(g) if erase_generations => format!("ap{}", g.len()),
            other => format!("{other:?}"),
        })
        .collect()
}

fn leaf_multiset(d: &Dec) -> BTreeMap<String, usize> {
    let mut m = BTreeMap::new();
    for s in normalized_trace(d, true) {
        if s.starts_with("Par") || s.starts_with("Fold") {
            continue;
        }
        *m.entry(s).or_insert(0) += 1;
    }
    // fold iterations keyed by the content id of the value they visit
    for e in &d.trace {
        if let Ent::Fold(lore) = e {
            for l in lore {
                // an iteration that left no state at all, or only par brackets (e.g. its body only evaluated a failing
                // match under xor), is unobservable; whether such an empty lore entry survives a merge carries no knowledge
                let hollow = l.descs.iter().all(|x| {
                    (x.0 as usize..(x.0 + x.1) as usize).all(|p| matches!(d.trace.get(p), Some(Ent::Par(..)) | None))
                });
                if hollow {
                    continue;
                }
                let key = match d.trace.get(l.value_pos as usize) {
                    Some(Ent::Call(CallSt::Exec { cid, .. })) => format!("iteration-over:{cid}"),
                    _ => "iteration-over:ap".to_string(),
                };
                *m.entry(key).or_insert(0) += 1;
            }
        }
    }
    m
}

impl C08 {
    fn merge_in_order(&mut self, cx: &mut Cx, peer: usize, start: &[u8], datas: &[Vec<u8>], order: &[usize]) -> Option<Vec<u8>> {
        let mut acc = start.to_vec();
        for i in order {
            self.orders_run += 1;
            match cx.run_bytes(peer, &acc, &datas[*i], &Default::default()) {
                Ok(o) if matches!(class(o.ret_code), "ok" | "catchable") => acc = o.data,
                Ok(_) => return None,
                Err(_) => return None,
            }
        }
        Some(acc)
    }

    fn compare(&self, cx: &Cx, results: &[(String, Vec<u8>)]) -> Vec<Viol> {
        let mut out = vec![];
        let _ = cx;
        let decs: Vec<(String, Dec)> = results.iter().filter_map(|(n, b)| crate::data::decode(b).ok().map(|d| (n.clone(), d))).collect();
        if decs.len() < 2 {
            return out;
        }
        let (n0, d0) = &decs[0];
        for (n, d) in decs.iter().skip(1) {
            if knowledge(d) != knowledge(d0) {
                let (a, b) = (knowledge(d0), knowledge(d));
                let diff: Vec<String> = a.keys().chain(b.keys()).filter(|k| a.get(*k) != b.get(*k)).cloned().collect();
                let kind = if diff.iter().any(|k| k.starts_with("canon")) { "canon" } else if diff.iter().any(|k| k.starts_with("failed")) { "failed-call" } else { "call" };
                out.push(viol(&format!("C08/knowledge-depends-on-order/{kind}"), format!("merging in order {n0} and in order {n} gives different results: {diff:?}")));
                continue;
            }
            if self.stream_free {
                if normalized_trace(d, false) != normalized_trace(d0, false) {
                    out.push(viol("C08/trace-depends-on-order", format!("stream-free script: order {n0} gives {:?}, order {n} gives {:?}", d0.trace, d.trace)));
                }
            } else if leaf_multiset(d) != leaf_multiset(d0) {
                out.push(viol("C08/entries-depend-on-order", format!("order {n0} gives {:?}, order {n} gives {:?}\n  traces: {:?}\n  vs {:?}", leaf_multiset(d0), leaf_multiset(d), d0.trace, d.trace)));
            }
        }
        out
    }
}

impl Monitor for C08 {
    fn on_state(&mut self, cx: &mut Cx, st: &State, info: &StateInfo) -> Vec<Viol> {
        let mut out = vec![];
        if !(info.quiescent || info.depth <= self.max_depth_intermediate) {
            return out;
        }
        let mut set: Vec<BlobId> = st.prev.iter().cloned().filter(|b| *b != 0).collect();
        set.sort();
        set.dedup();
        if set.len() < 2 || !self.done.insert(set.clone()) {
            return out;
        }
        self.sets_merged += 1;
        if set.len() >= 3 {
            self.nontrivial += 1;
        }
        let datas: Vec<Vec<u8>> = set.iter().map(|b| cx.bytes(*b).to_vec()).collect();
        let obs = cx.world.nact;
        let obs2 = cx.world.nact + 1;
        let mut results: Vec<(String, Vec<u8>)> = vec![];
        for perm in permutations(datas.len()) {
            // left fold at the observer
            if let Some(r) = self.merge_in_order(cx, obs, &[], &datas, &perm) {
                results.push((format!("left-fold{perm:?}"), r));
            }
            // right-nested grouping: a second observer pre-merges the suffix, the first merges prefix then that
            if datas.len() >= 3 && cx.world.peers.len() > obs2 {
                let (head, tail) = perm.split_at(1);
                if let Some(suffix) = self.merge_in_order(cx, obs2, &[], &datas, tail) {
                    let mut all = datas.clone();
                    all.push(suffix);
                    let order = vec![head[0], all.len() - 1];
                    if let Some(r) = self.merge_in_order(cx, obs, &[], &all, &order) {
                        results.push((format!("grouped[{:?},({:?})]", head, tail), r));
                    }
                }
            }
        }
        out.extend(self.compare(cx, &results));
        // participating peers, starting from their own data, at quiescent states only (otherwise merging makes them
        // execute new instructions, which is not "merging")
        if info.quiescent {
            for p in 0..cx.world.nact {
                let own = st.prev[p];
                if own == 0 {
                    continue;
                }
                let own_bytes = cx.bytes(own).to_vec();
                let others: Vec<usize> = (0..set.len()).filter(|i| set[*i] != own).collect();
                let mut res: Vec<(String, Vec<u8>)> = vec![];
                for perm in permutations(others.len()) {
                    let order: Vec<usize> = perm.iter().map(|i| others[*i]).collect();
                    if let Some(r) = self.merge_in_order(cx, p, &own_bytes, &datas, &order) {
                        res.push((format!("peer-{}{order:?}", cx.world.peers[p].name), r));
                    }
                }
                out.extend(self.compare(cx, &res));
            }
        }
        out
    }
    fn nontrivial(&self) -> u64 {
        self.nontrivial
    }
    fn extra(&self) -> Value {
        json!({"data_sets_merged": self.sets_merged, "merge_runs": self.orders_run})
    }
}
