//! E1: explicit-state exploration of a network of real interpreters. Every transition is exactly one
//! call of `air::execute_air` (memoised per distinct input tuple).

use crate::data::{decode, Dec};
use crate::host::{self, make_peer, Oracle, Particle, Peer, RawResults, Req};
use crate::script::{PeerIds, Script};

use serde_json::{json, Value};
use std::collections::{BTreeMap, BTreeSet, HashMap, VecDeque};
use std::rc::Rc;

pub type BlobId = u32;
pub type ReqId = u32;
pub type RunId = u32;
pub const EMPTY: BlobId = 0;

pub struct Blob {
    pub bytes: Vec<u8>,
    pub dec: Result<Rc<Dec>, String>,
}

pub struct World {
    pub peers: Vec<Peer>,
    /// the first `nact` peers take part in the state; the rest are observers
    pub nact: usize,
    pub part: Particle,
    pub oracle: Oracle,
    pub ids: PeerIds,
    pub script: Script,
}

impl World {
    pub fn new(script: &Script, observers: &[&str], particle_id: &str) -> World {
        let mut peers: Vec<Peer> = script.peers.iter().map(|n| make_peer(n)).collect();
        let nact = peers.len();
        for o in observers {
            peers.push(make_peer(o));
        }
        let ids: PeerIds = peers.iter().map(|p| (p.name.clone(), p.id.clone())).collect();
        let text = crate::script::print(&script.ast, &ids);
        let part = Particle {
            script: text,
            init_peer_id: peers[0].id.clone(),
            particle_id: particle_id.to_string(),
            timestamp: 1_700_000_000_000,
            ttl: 30_000,
        };
        World { peers, nact, part, oracle: Oracle { ids: ids.clone(), equivocator: None }, ids, script: script.clone() }
    }
    pub fn peer_idx_by_id(&self, id: &str) -> Option<usize> {
        self.peers.iter().position(|p| p.id == id)
    }
    pub fn peer_name_by_id(&self, id: &str) -> String {
        self.peer_idx_by_id(id).map(|i| self.peers[i].name.clone()).unwrap_or_else(|| format!("?{id}"))
    }
}

#[derive(Clone, Debug)]
pub struct RunRec {
    pub peer: usize,
    pub prev: BlobId,
    pub cur: BlobId,
    pub results: Vec<(u32, ReqId)>,
    /// extra raw results under ids that are not pending (ReturnBogus)
    pub bogus: Vec<(u32, ReqId)>,
    pub panic: Option<String>,
    pub ret_code: i64,
    pub error_message: String,
    pub out: BlobId,
    pub out_bytes_eq_prev: bool,
    pub out_len: usize,
    pub next_peers: Vec<String>,
    pub requests: BTreeMap<u32, ReqId>,
    pub requests_err: Option<String>,
    pub requests_raw_empty: bool,
}

#[derive(Clone, Debug, PartialEq, Eq, Hash, PartialOrd, Ord, Default)]
pub struct Ghosts {
    pub issued: BTreeMap<(u8, ReqId), u32>,
    pub answered: BTreeMap<(u8, ReqId), u32>,
    pub max_id: Vec<u32>,
    pub bogus_used: bool,
}

#[derive(Clone, Debug, PartialEq, Eq, Hash, PartialOrd, Ord)]
pub struct State {
    pub prev: Vec<BlobId>,
    pub pending: Vec<BTreeMap<u32, ReqId>>,
    pub inflight: BTreeSet<(u8, BlobId)>,
    pub ghosts: Ghosts,
}

#[derive(Clone, Debug, PartialEq, Eq, Hash, PartialOrd, Ord)]
pub enum Action {
    Init,
    Deliver { dest: u8, blob: BlobId, keep: bool },
    Return { peer: u8, ids: Vec<u32> },
    DeliverReturn { dest: u8, blob: BlobId, keep: bool, ids: Vec<u32> },
    ReturnBogus { peer: u8, id: u32 },
}

#[derive(Clone, Debug)]
pub struct Cfg {
    pub dup: bool,
    pub deliver_return: bool,
    /// families whose scripts get the DeliverReturn transitions even when `deliver_return` is off (small graphs)
    pub deliver_return_families: Vec<String>,
    pub bogus: bool,
    pub max_deviations: Option<u32>,
    pub state_cap: usize,
    pub max_subset_pending: usize,
    pub wall_cap_s: f64,
    /// global deadline of the whole check (all scripts)
    pub deadline: Option<std::time::Instant>,
    /// stop exploring a script as soon as a monitor reported something
    pub stop_at_first_violation: bool,
    /// ... except for these tags (listed known findings): exploration of the script goes on past them, so that
    /// a different violation in the same script is still found
    pub ignore_tags: Vec<String>,
}

impl Default for Cfg {
    fn default() -> Self {
        Cfg {
            dup: true,
            deliver_return: false,
            deliver_return_families: vec![],
            bogus: false,
            max_deviations: None,
            state_cap: 200_000,
            max_subset_pending: 4,
            wall_cap_s: 600.0,
            deadline: None,
            stop_at_first_violation: true,
            ignore_tags: vec![],
        }
    }
}

#[derive(Clone, Debug)]
pub struct Viol {
    pub tag: String,
    pub detail: String,
}

pub fn viol(tag: &str, detail: String) -> Viol {
    Viol { tag: tag.to_string(), detail }
}

pub struct StateInfo {
    pub depth: u32,
    pub quiescent: bool,
    pub nsucc: usize,
}

/// Everything a monitor may look at.
pub struct Cx {
    pub world: World,
    pub blobs: Vec<Blob>,
    pub blob_ix: HashMap<String, BlobId>,
    pub reqs: Vec<Req>,
    pub req_ix: HashMap<Req, ReqId>,
    pub runs: Vec<RunRec>,
    pub run_ix: HashMap<(usize, BlobId, BlobId, Vec<(u32, ReqId)>, Vec<(u32, ReqId)>), RunId>,
    pub extra_runs: u64,
}

impl Cx {
    pub fn new(world: World) -> Cx {
        let mut cx = Cx {
            world,
            blobs: vec![],
            blob_ix: HashMap::new(),
            reqs: vec![],
            req_ix: HashMap::new(),
            runs: vec![],
            run_ix: HashMap::new(),
            extra_runs: 0,
        };
        let e = cx.intern_blob(vec![]);
        assert_eq!(e, EMPTY);
        cx
    }

    pub fn intern_blob(&mut self, bytes: Vec<u8>) -> BlobId {
        let dec = decode(&bytes);
        let key = match &dec {
            Ok(d) => d.canon.clone(),
            Err(e) => format!("UNDECODABLE:{e}:{}", hexhash(&bytes)),
        };
        if let Some(id) = self.blob_ix.get(&key) {
            return *id;
        }
        let id = self.blobs.len() as BlobId;
        self.blobs.push(Blob { bytes, dec: dec.map(Rc::new) });
        self.blob_ix.insert(key, id);
        id
    }

    pub fn intern_req(&mut self, r: Req) -> ReqId {
        if let Some(id) = self.req_ix.get(&r) {
            return *id;
        }
        let id = self.reqs.len() as ReqId;
        self.reqs.push(r.clone());
        self.req_ix.insert(r, id);
        id
    }

    pub fn dec(&self, b: BlobId) -> Option<Rc<Dec>> {
        self.blobs[b as usize].dec.as_ref().ok().cloned()
    }

    pub fn bytes(&self, b: BlobId) -> &[u8] {
        &self.blobs[b as usize].bytes
    }

    fn raw_results(&self, peer: usize, results: &[(u32, ReqId)]) -> RawResults {
        let name = &self.world.peers[peer].name;
        results.iter().map(|(id, rq)| (*id, self.world.oracle.answer(name, &self.reqs[*rq as usize]))).collect()
    }

    /// One (memoised) run of the real interpreter.
    pub fn run(&mut self, peer: usize, prev: BlobId, cur: BlobId, results: &[(u32, ReqId)], bogus: &[(u32, ReqId)]) -> RunId {
        let key = (peer, prev, cur, results.to_vec(), bogus.to_vec());
        if let Some(r) = self.run_ix.get(&key) {
            return *r;
        }
        let mut raw = self.raw_results(peer, results);
        for (k, v) in self.raw_results(peer, bogus) {
            raw.insert(k, v);
        }
        let prev_bytes = self.blobs[prev as usize].bytes.clone();
        let cur_bytes = self.blobs[cur as usize].bytes.clone();
        let res = host::run(&self.world.part, &self.world.peers[peer], &prev_bytes, &cur_bytes, &raw);
        let rec = match res {
            Err(p) => RunRec {
                peer,
                prev,
                cur,
                results: results.to_vec(),
                bogus: bogus.to_vec(),
                panic: Some(p),
                ret_code: -1,
                error_message: String::new(),
                out: prev,
                out_bytes_eq_prev: true,
                out_len: prev_bytes.len(),
                next_peers: vec![],
                requests: BTreeMap::new(),
                requests_err: None,
                requests_raw_empty: true,
            },
            Ok(o) => {
                let eq = o.data == prev_bytes;
                let out_len = o.data.len();
                let out = self.intern_blob(o.data);
                let (requests, requests_err) = match host::decode_requests(&o.call_requests) {
                    Ok(m) => (m.into_iter().map(|(k, r)| (k, self.intern_req(r))).collect(), None),
                    Err(e) => (BTreeMap::new(), Some(e)),
                };
                RunRec {
                    peer,
                    prev,
                    cur,
                    results: results.to_vec(),
                    bogus: bogus.to_vec(),
                    panic: None,
                    ret_code: o.ret_code,
                    error_message: o.error_message,
                    out,
                    out_bytes_eq_prev: eq,
                    out_len,
                    next_peers: o.next_peer_pks,
                    requests_raw_empty: requests.is_empty() && requests_err.is_none(),
                    requests,
                    requests_err,
                }
            }
        };
        let id = self.runs.len() as RunId;
        if std::env::var("VERIF_DUMP_RUNS").is_ok() {
            // development aid: one line per distinct run
            let tr = self.blobs[rec.out as usize].dec.as_ref().map(|d| format!("{:?}", d.trace)).unwrap_or_default();
            host::elog(&format!("RUN {id} peer={} prev={} cur={} results={:?} -> code={} msg={:?} next={:?} requests={:?} out={} trace={}", self.world.peers[peer].name, prev, cur, rec.results, rec.ret_code, rec.error_message, rec.next_peers.iter().map(|p| self.world.peer_name_by_id(p)).collect::<Vec<_>>(), rec.requests.iter().map(|(k, r)| (*k, self.reqs[*r as usize].function.clone(), self.reqs[*r as usize].args.clone(), self.reqs[*r as usize].tetraplets.iter().map(|ts| ts.iter().map(|t| (self.world.peer_name_by_id(&t.0), t.1.clone(), t.2.clone(), t.3.clone())).collect::<Vec<_>>()).collect::<Vec<_>>())).collect::<Vec<_>>(), rec.out, tr));
        }
        self.runs.push(rec);
        self.run_ix.insert(key, id);
        id
    }

    /// An unmemoised run with explicit byte inputs (for derived checks: observers, re-execution, ...).
    pub fn run_bytes(&mut self, peer: usize, prev: &[u8], cur: &[u8], raw: &RawResults) -> Result<air_interpreter_interface::InterpreterOutcome, String> {
        self.extra_runs += 1;
        host::run(&self.world.part, &self.world.peers[peer], prev, cur, raw)
    }
}

pub fn hexhash(b: &[u8]) -> String {
    use sha2::{Digest, Sha256};
    let h = Sha256::digest(b);
    h.iter().take(8).map(|x| format!("{x:02x}")).collect()
}

pub trait Monitor {
    /// Called once per distinct run (distinct input tuple).
    fn on_run(&mut self, _cx: &mut Cx, _run: RunId) -> Vec<Viol> {
        vec![]
    }
    /// Called for every explored transition.
    fn on_transition(&mut self, _cx: &mut Cx, _pre: &State, _act: &Action, _run: RunId, _post: &State) -> Vec<Viol> {
        vec![]
    }
    /// Called once per distinct state after its successors are known.
    fn on_state(&mut self, _cx: &mut Cx, _st: &State, _info: &StateInfo) -> Vec<Viol> {
        vec![]
    }
    /// Number of distinct non-trivial cases seen (rule is the monitor's own, stated in the evidence).
    fn nontrivial(&self) -> u64 {
        0
    }
    fn extra(&self) -> Value {
        Value::Null
    }
}

#[derive(Clone, Debug, Default)]
pub struct Stats {
    pub states: u64,
    pub states_without_ghosts: u64,
    pub transitions: u64,
    pub distinct_runs: u64,
    pub extra_runs: u64,
    pub blobs: u64,
    pub quiescent_states: u64,
    pub closed: bool,
    pub capped: Option<String>,
    pub max_depth: u32,
    pub deviation_bound_completed: Option<u32>,
    pub ret_codes: BTreeMap<i64, u64>,
    pub nontrivial: u64,
    pub wall_s: f64,
}

pub struct Found {
    pub viol: Viol,
    pub path: Vec<Value>,
}

pub struct Explored {
    pub stats: Stats,
    pub found: Vec<Found>,
    pub extra: Value,
    pub cx: Cx,
}

fn subsets(ids: &[u32], max_full: usize) -> Vec<Vec<u32>> {
    let n = ids.len();
    let mut out = vec![];
    if n == 0 {
        return out;
    }
    if n <= max_full {
        // all-first so that the default (cost 0) action is index 0
        let mut masks: Vec<u32> = (1..(1u32 << n)).collect();
        masks.sort_by_key(|m| std::cmp::Reverse(m.count_ones()));
        for m in masks {
            out.push((0..n).filter(|i| m & (1 << i) != 0).map(|i| ids[i]).collect());
        }
    } else {
        out.push(ids.to_vec());
        for i in 0..n {
            out.push(vec![ids[i]]);
        }
        for i in 0..n {
            out.push(ids.iter().enumerate().filter(|(j, _)| *j != i).map(|(_, x)| *x).collect());
        }
    }
    out
}

/// Enabled actions of a state, the default (deviation-free) one first.
pub fn enabled(st: &State, cfg: &Cfg, cx: &Cx) -> Vec<Action> {
    let mut v = vec![];
    for (p, pend) in st.pending.iter().enumerate() {
        let ids: Vec<u32> = pend.keys().cloned().collect();
        for s in subsets(&ids, cfg.max_subset_pending) {
            v.push(Action::Return { peer: p as u8, ids: s });
        }
    }
    for (dest, blob) in &st.inflight {
        v.push(Action::Deliver { dest: *dest, blob: *blob, keep: false });
        if cfg.dup {
            v.push(Action::Deliver { dest: *dest, blob: *blob, keep: true });
        }
    }
    if cfg.deliver_return {
        for (dest, blob) in &st.inflight {
            let ids: Vec<u32> = st.pending[*dest as usize].keys().cloned().collect();
            for s in subsets(&ids, cfg.max_subset_pending) {
                v.push(Action::DeliverReturn { dest: *dest, blob: *blob, keep: false, ids: s.clone() });
                if cfg.dup {
                    v.push(Action::DeliverReturn { dest: *dest, blob: *blob, keep: true, ids: s });
                }
            }
        }
    }
    if cfg.bogus && !st.ghosts.bogus_used {
        for p in 0..st.prev.len() {
            if st.prev[p] == EMPTY {
                continue;
            }
            let maxid = st.ghosts.max_id[p];
            let mut ids = vec![0u32, maxid.wrapping_add(1), maxid.wrapping_add(7), u32::MAX];
            // an id already consumed: any issued id that is no longer pending
            for c in 1..=maxid {
                if !st.pending[p].contains_key(&c) {
                    ids.push(c);
                    break;
                }
            }
            ids.retain(|i| !st.pending[p].contains_key(i));
            ids.sort();
            ids.dedup();
            for id in ids {
                v.push(Action::ReturnBogus { peer: p as u8, id });
            }
        }
    }
    let _ = cx;
    v
}

/// Applies an action with the host model of DESIGN.md 3.2. Returns the run and the successor.
pub fn apply(cx: &mut Cx, st: &State, act: &Action) -> (RunId, State) {
    let mut post = st.clone();
    let (peer, cur, results, bogus): (usize, BlobId, Vec<(u32, ReqId)>, Vec<(u32, ReqId)>) = match act {
        Action::Init => (0, EMPTY, vec![], vec![]),
        Action::Deliver { dest, blob, keep } => {
            if !*keep {
                post.inflight.remove(&(*dest, *blob));
            }
            (*dest as usize, *blob, vec![], vec![])
        }
        Action::Return { peer, ids } => {
            let p = *peer as usize;
            let rs: Vec<(u32, ReqId)> = ids.iter().map(|i| (*i, st.pending[p][i])).collect();
            (p, EMPTY, rs, vec![])
        }
        Action::DeliverReturn { dest, blob, keep, ids } => {
            let p = *dest as usize;
            if !*keep {
                post.inflight.remove(&(*dest, *blob));
            }
            let rs: Vec<(u32, ReqId)> = ids.iter().map(|i| (*i, st.pending[p][i])).collect();
            (p, *blob, rs, vec![])
        }
        Action::ReturnBogus { peer, id } => {
            let p = *peer as usize;
            // the bogus answer is the oracle's answer to a request nobody made
            let rq = cx.intern_req(Req {
                service: "s".into(),
                function: "fbogus".into(),
                args: vec![format!("{id}")],
                tetraplets: vec![],
            });
            post.ghosts.bogus_used = true;
            (p, EMPTY, vec![], vec![(*id, rq)])
        }
    };
    let rid = cx.run(peer, st.prev[peer], cur, &results, &bogus);
    let run = cx.runs[rid as usize].clone();
    // host model: store data whatever the code; drop answered requests; add new ones; forward
    post.prev[peer] = run.out;
    for (id, rq) in &results {
        post.pending[peer].remove(id);
        *post.ghosts.answered.entry((peer as u8, *rq)).or_insert(0) += 1;
    }
    for (id, rq) in &run.requests {
        post.pending[peer].insert(*id, *rq);
        *post.ghosts.issued.entry((peer as u8, *rq)).or_insert(0) += 1;
        if *id > post.ghosts.max_id[peer] {
            post.ghosts.max_id[peer] = *id;
        }
    }
    for q in &run.next_peers {
        if let Some(ix) = cx.world.peer_idx_by_id(q) {
            if ix < cx.world.nact {
                post.inflight.insert((ix as u8, run.out));
            }
        }
    }
    (rid, post)
}

pub fn initial(world: &World) -> State {
    let n = world.nact;
    State {
        prev: vec![EMPTY; n],
        pending: vec![BTreeMap::new(); n],
        inflight: BTreeSet::new(),
        ghosts: Ghosts { max_id: vec![0; n], ..Default::default() },
    }
}

/// Human/replay description of an action, independent of the exploration's blob numbering:
/// messages are named by the step (index into the path) whose run produced them.
fn describe_path(cx: &Cx, path: &[(Action, RunId)]) -> Vec<Value> {
    let mut out = vec![];
    let mut produced: Vec<BlobId> = vec![];
    for (act, rid) in path {
        let run = &cx.runs[*rid as usize];
        let from_step = |b: BlobId| produced.iter().position(|x| *x == b).map(|x| x as i64).unwrap_or(-1);
        let pname = |p: u8| cx.world.peers[p as usize].name.clone();
        let v = match act {
            Action::Init => json!({"act": "init", "peer": pname(0)}),
            Action::Deliver { dest, blob, keep } => {
                json!({"act": "deliver", "peer": pname(*dest), "from_step": from_step(*blob), "keep": keep})
            }
            Action::Return { peer, ids } => json!({"act": "return", "peer": pname(*peer), "ids": ids}),
            Action::DeliverReturn { dest, blob, keep, ids } => {
                json!({"act": "deliver_return", "peer": pname(*dest), "from_step": from_step(*blob), "keep": keep, "ids": ids})
            }
            Action::ReturnBogus { peer, id } => json!({"act": "return_bogus", "peer": pname(*peer), "id": id}),
        };
        let mut v = v;
        v["ret_code"] = json!(run.ret_code);
        if !run.error_message.is_empty() {
            v["error"] = json!(run.error_message);
        }
        v["next_peers"] = json!(run.next_peers.iter().map(|p| cx.world.peer_name_by_id(p)).collect::<Vec<_>>());
        v["requests"] = json!(run
            .requests
            .iter()
            .map(|(id, rq)| {
                let r = &cx.reqs[*rq as usize];
                json!({"id": id, "f": r.function, "args": r.args})
            })
            .collect::<Vec<_>>());
        out.push(v);
        produced.push(run.out);
    }
    out
}

/// Breadth-first (deviation-cost ordered) exploration of one script.
pub fn explore(world: World, cfg: &Cfg, mon: &mut dyn Monitor) -> Explored {
    let t0 = std::time::Instant::now();
    let mut cx = Cx::new(world);
    let mut stats = Stats::default();
    let mut found: Vec<Found> = vec![];
    let mut seen_tags: BTreeSet<String> = BTreeSet::new();

    // state table
    let mut ix: HashMap<State, u32> = HashMap::new();
    let mut table: Vec<(State, u32 /*parent*/, Action, RunId, u32 /*depth*/, u32 /*cost*/)> = vec![];
    let mut noghost: std::collections::HashSet<(Vec<BlobId>, Vec<BTreeMap<u32, ReqId>>, BTreeSet<(u8, BlobId)>)> = Default::default();
    let mut runs_seen: usize = 0;

    let s0 = initial(&cx.world);
    let (r0, s1) = apply(&mut cx, &s0, &Action::Init);
    ix.insert(s1.clone(), 0);
    table.push((s1.clone(), u32::MAX, Action::Init, r0, 1, 0));
    noghost.insert((s1.prev.clone(), s1.pending.clone(), s1.inflight.clone()));

    let path_of = |table: &Vec<(State, u32, Action, RunId, u32, u32)>, mut i: u32| -> Vec<(Action, RunId)> {
        let mut p = vec![];
        while i != u32::MAX {
            let e = &table[i as usize];
            p.push((e.2.clone(), e.3));
            i = e.1;
        }
        p.reverse();
        p
    };

    macro_rules! report {
        ($viols:expr, $sid:expr, $extra:expr) => {
            for v in $viols {
                if seen_tags.insert(v.tag.clone()) {
                    let mut p = path_of(&table, $sid);
                    if let Some(e) = $extra {
                        p.push(e);
                    }
                    found.push(Found { viol: v, path: describe_path(&cx, &p) });
                }
            }
        };
    }

    // monitor the initial run/transition
    {
        let vs = mon.on_run(&mut cx, r0);
        report!(vs, 0u32, None::<(Action, RunId)>);
        runs_seen = cx.runs.len().max(runs_seen);
        let vs = mon.on_transition(&mut cx, &s0, &Action::Init, r0, &s1);
        report!(vs, 0u32, None::<(Action, RunId)>);
        *stats.ret_codes.entry(cx.runs[r0 as usize].ret_code).or_insert(0) += 1;
        stats.transitions += 1;
    }
    let mut monitored_runs: std::collections::HashSet<RunId> = Default::default();
    monitored_runs.insert(r0);

    let maxdev = cfg.max_deviations.unwrap_or(u32::MAX);
    let mut buckets: Vec<VecDeque<u32>> = vec![VecDeque::new()];
    buckets[0].push_back(0);
    let mut processed: Vec<bool> = vec![false];
    let mut cur_cost = 0usize;
    'outer: loop {
        while cur_cost < buckets.len() && buckets[cur_cost].is_empty() {
            cur_cost += 1;
        }
        if cur_cost >= buckets.len() || cur_cost as u32 > maxdev {
            break;
        }
        let sid = buckets[cur_cost].pop_front().unwrap();
        if processed[sid as usize] || table[sid as usize].5 as usize != cur_cost {
            continue;
        }
        processed[sid as usize] = true;
        let (st, depth) = (table[sid as usize].0.clone(), table[sid as usize].4);
        stats.max_depth = stats.max_depth.max(depth);
        let acts = enabled(&st, cfg, &cx);
        let mut quiescent = st.pending.iter().all(|p| p.is_empty());
        for (ai, act) in acts.iter().enumerate() {
            let cost = cur_cost as u32 + if ai == 0 { 0 } else { 1 };
            if cost > maxdev {
                // still needed for quiescence detection? no: bounded searches do not report quiescence
                continue;
            }
            let (rid, post) = apply(&mut cx, &st, act);
            stats.transitions += 1;
            *stats.ret_codes.entry(cx.runs[rid as usize].ret_code).or_insert(0) += 1;
            if monitored_runs.insert(rid) {
                let vs = mon.on_run(&mut cx, rid);
                report!(vs, sid, Some((act.clone(), rid)));
            }
            let vs = mon.on_transition(&mut cx, &st, act, rid, &post);
            report!(vs, sid, Some((act.clone(), rid)));
            if matches!(act, Action::Deliver { .. }) {
                let run = &cx.runs[rid as usize];
                let changed = post.prev != st.prev || !run.requests.is_empty() || !post.inflight.is_subset(&st.inflight);
                if changed {
                    quiescent = false;
                }
            }
            match ix.get(&post) {
                Some(&j) => {
                    if table[j as usize].5 > cost && !processed[j as usize] {
                        table[j as usize].5 = cost;
                        table[j as usize].1 = sid;
                        table[j as usize].2 = act.clone();
                        table[j as usize].3 = rid;
                        table[j as usize].4 = depth + 1;
                        while buckets.len() <= cost as usize {
                            buckets.push(VecDeque::new());
                        }
                        buckets[cost as usize].push_back(j);
                    }
                }
                None => {
                    let j = table.len() as u32;
                    noghost.insert((post.prev.clone(), post.pending.clone(), post.inflight.clone()));
                    ix.insert(post.clone(), j);
                    table.push((post, sid, act.clone(), rid, depth + 1, cost));
                    processed.push(false);
                    while buckets.len() <= cost as usize {
                        buckets.push(VecDeque::new());
                    }
                    buckets[cost as usize].push_back(j);
                }
            }
            if table.len() > cfg.state_cap {
                stats.capped = Some(format!("state cap {} reached", cfg.state_cap));
                break 'outer;
            }
        }
        let full = cfg.max_deviations.is_none();
        let info = StateInfo { depth, quiescent: quiescent && full, nsucc: acts.len() };
        if info.quiescent {
            stats.quiescent_states += 1;
        }
        let vs = mon.on_state(&mut cx, &st, &info);
        report!(vs, sid, None::<(Action, RunId)>);
        if t0.elapsed().as_secs_f64() > cfg.wall_cap_s {
            stats.capped = Some(format!("wall cap {}s reached", cfg.wall_cap_s));
            break;
        }
        if let Some(d) = cfg.deadline {
            if std::time::Instant::now() > d {
                stats.capped = Some("global time budget of the check reached".into());
                break;
            }
        }
        if cfg.stop_at_first_violation && found.iter().any(|f| !cfg.ignore_tags.contains(&f.viol.tag)) {
            stats.capped = Some("stopped after the first violation in this script".into());
            break;
        }
    }
    let _ = runs_seen;
    stats.states = table.len() as u64;
    stats.states_without_ghosts = noghost.len() as u64;
    stats.distinct_runs = cx.runs.len() as u64;
    stats.extra_runs = cx.extra_runs;
    stats.blobs = cx.blobs.len() as u64;
    stats.closed = stats.capped.is_none() && cfg.max_deviations.is_none();
    if stats.capped.is_none() {
        stats.deviation_bound_completed = cfg.max_deviations;
    }
    stats.nontrivial = mon.nontrivial();
    stats.wall_s = t0.elapsed().as_secs_f64();
    Explored { stats, found, extra: mon.extra(), cx }
}

/// Replays a described path (from a replay file) on a fresh world, calling the monitor hooks on the way.
pub fn replay(world: World, path: &[Value], mon: &mut dyn Monitor) -> Result<(Vec<Viol>, Vec<Value>), String> {
    let mut cx = Cx::new(world);
    let mut st = initial(&cx.world);
    let mut produced: Vec<BlobId> = vec![];
    let mut viols = vec![];
    let mut done: Vec<(Action, RunId)> = vec![];
    let pidx = |cx: &Cx, name: &str| cx.world.peers.iter().position(|p| p.name == name).ok_or(format!("unknown peer {name}"));
    for (k, step) in path.iter().enumerate() {
        let kind = step["act"].as_str().ok_or("act missing")?;
        let peer = pidx(&cx, step["peer"].as_str().ok_or("peer missing")?)? as u8;
        let ids: Vec<u32> = step["ids"].as_array().map(|a| a.iter().map(|x| x.as_u64().unwrap() as u32).collect()).unwrap_or_default();
        let blob = || -> Result<BlobId, String> {
            let fs = step["from_step"].as_i64().ok_or("from_step missing")?;
            produced.get(fs as usize).cloned().ok_or(format!("step {k}: from_step {fs} out of range"))
        };
        let keep = step["keep"].as_bool().unwrap_or(false);
        let act = match kind {
            "init" => Action::Init,
            "deliver" => Action::Deliver { dest: peer, blob: blob()?, keep },
            "return" => Action::Return { peer, ids },
            "deliver_return" => Action::DeliverReturn { dest: peer, blob: blob()?, keep, ids },
            "return_bogus" => Action::ReturnBogus { peer, id: step["id"].as_u64().ok_or("id")? as u32 },
            other => return Err(format!("unknown action {other}")),
        };
        // an action that is not enabled in the replayed state is a divergence, i.e. a hard error
        match &act {
            Action::Deliver { dest, blob, .. } | Action::DeliverReturn { dest, blob, .. } => {
                if !st.inflight.contains(&(*dest, *blob)) {
                    return Err(format!("step {k}: message not in flight (replay diverged)"));
                }
            }
            _ => {}
        }
        if let Action::Return { peer, ids } | Action::DeliverReturn { dest: peer, ids, .. } = &act {
            for i in ids {
                if !st.pending[*peer as usize].contains_key(i) {
                    return Err(format!("step {k}: id {i} not pending (replay diverged)"));
                }
            }
        }
        let (rid, post) = apply(&mut cx, &st, &act);
        viols.extend(mon.on_run(&mut cx, rid));
        viols.extend(mon.on_transition(&mut cx, &st, &act, rid, &post));
        produced.push(cx.runs[rid as usize].out);
        if std::env::var("VERIF_DUMP").is_ok() {
            let r = &cx.runs[rid as usize];
            println!("--- step {k} {} ret={} {}", step, r.ret_code, r.error_message);
            if let Some(d) = cx.dec(r.out) {
                for (i, e) in d.trace.iter().enumerate() {
                    let extra = match e {
                        crate::data::Ent::Call(crate::data::CallSt::Exec { cid, kind, .. }) if *kind != 'u' => d.srv(cid).and_then(|a| a.value).unwrap_or_default(),
                        crate::data::Ent::Call(crate::data::CallSt::Failed { cid }) => d.srv(cid).and_then(|a| a.value).unwrap_or_default(),
                        crate::data::Ent::Canon(crate::data::CanonSt::Exec(cid)) => format!("{:?}", d.canon(cid).map(|c| c.elems.iter().map(|e| e.value.clone().unwrap_or_default()).collect::<Vec<_>>())),
                        _ => String::new(),
                    };
                    println!("    {i:3} {e:?} {extra}");
                }
            }
        }
        done.push((act, rid));
        st = post;
        let info = StateInfo { depth: k as u32 + 1, quiescent: false, nsucc: 0 };
        viols.extend(mon.on_state(&mut cx, &st, &info));
    }
    let desc = describe_path(&cx, &done);
    Ok((viols, desc))
}
