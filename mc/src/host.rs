//! Host model: peers, key pairs, one wrapped call of the real `air::execute_air`, the deterministic
//! service oracle, and decoding helpers for outcomes. Everything here uses public API only.

use air_interpreter_interface::{
    CallArgumentsRepr, CallRequestsRepr, CallResultsRepr, CallServiceResult, InterpreterOutcome, RunParameters,
    TetrapletsRepr,
};
use air_interpreter_sede::{FromSerialized, ToSerialized};
use air_interpreter_signatures::KeyPair;
use polyplets::SecurityTetraplet;
use serde_json::{json, Value};

use std::cell::RefCell;
use std::collections::{BTreeMap, HashMap};
use std::panic::{catch_unwind, AssertUnwindSafe};

pub struct Peer {
    pub name: String,
    pub id: String,
    pub kp: KeyPair,
    pub secret: Vec<u8>,
    pub key_format: u8,
}

/// Same derivation as `air-test-utils::derive_dummy_keypair`.
pub fn make_peer(name: &str) -> Peer {
    use rand_chacha::rand_core::SeedableRng;
    use sha2::{Digest as _, Sha256};
    let mut rng = {
        let mut hasher = Sha256::new();
        hasher.update(name);
        rand_chacha::ChaCha8Rng::from_seed(hasher.finalize().into())
    };
    let keypair_ed25519 = ed25519_dalek::SigningKey::generate(&mut rng);
    let keypair = fluence_keypair::KeyPair::Ed25519(keypair_ed25519.into());
    let kp = KeyPair::try_from(keypair).expect("ed25519 is whitelisted");
    let id = kp.public().to_peer_id().unwrap().to_string();
    let secret = kp.secret();
    let key_format: u8 = kp.key_format().into();
    Peer { name: name.to_string(), id, kp, secret, key_format }
}

thread_local! {
    static LAST_PANIC: RefCell<Option<String>> = RefCell::new(None);
}

/// Installs a quiet panic hook that remembers the location of the last panic of this thread.
pub fn install_panic_hook() {
    std::panic::set_hook(Box::new(|info| {
        let loc = info
            .location()
            .map(|l| format!("{}:{}", l.file(), l.line()))
            .unwrap_or_else(|| "<unknown>".into());
        let msg = if let Some(s) = info.payload().downcast_ref::<&str>() {
            s.to_string()
        } else if let Some(s) = info.payload().downcast_ref::<String>() {
            s.clone()
        } else {
            "<non-string payload>".into()
        };
        if std::env::var("VERIF_DEBUG").is_ok() {
            elog(&format!("panic at {loc} :: {msg}"));
        }
        LAST_PANIC.with(|p| *p.borrow_mut() = Some(format!("{loc} :: {msg}")));
    }));
}

pub fn take_last_panic() -> Option<String> {
    LAST_PANIC.with(|p| p.borrow_mut().take())
}

#[derive(Clone, Debug)]
pub struct Limits {
    pub air: u64,
    pub particle: u64,
    pub call_result: u64,
    pub hard: bool,
}

impl Default for Limits {
    fn default() -> Self {
        Limits { air: u64::MAX, particle: u64::MAX, call_result: u64::MAX, hard: false }
    }
}

#[derive(Clone, Debug)]
pub struct Particle {
    pub script: String,
    pub init_peer_id: String,
    pub particle_id: String,
    pub timestamp: u64,
    pub ttl: u32,
}

pub type RawResults = BTreeMap<u32, CallServiceResult>;

/// One call of the real interpreter. `Err(location :: message)` if it panicked.
pub fn run_raw(
    part: &Particle,
    peer: &Peer,
    prev: &[u8],
    cur: &[u8],
    results_bytes: Vec<u8>,
    limits: &Limits,
) -> Result<InterpreterOutcome, String> {
    let params = RunParameters {
        init_peer_id: part.init_peer_id.clone(),
        current_peer_id: peer.id.clone(),
        timestamp: part.timestamp,
        ttl: part.ttl,
        key_format: peer.key_format,
        secret_key_bytes: peer.secret.clone(),
        particle_id: part.particle_id.clone(),
        air_size_limit: limits.air,
        particle_size_limit: limits.particle,
        call_result_size_limit: limits.call_result,
        hard_limit_enabled: limits.hard,
    };
    let air = part.script.clone();
    let prev = prev.to_vec();
    let cur = cur.to_vec();
    let r = catch_unwind(AssertUnwindSafe(move || air::execute_air(air, prev, cur, params, results_bytes.into())));
    match r {
        Ok(o) => Ok(o),
        Err(_) => Err(take_last_panic().unwrap_or_else(|| "<panic without hook>".into())),
    }
}

pub fn encode_results(results: &RawResults) -> Vec<u8> {
    let m: HashMap<String, CallServiceResult> = results.iter().map(|(k, v)| (k.to_string(), v.clone())).collect();
    CallResultsRepr.serialize(&m).expect("call results serialize").to_vec()
}

pub fn run(
    part: &Particle,
    peer: &Peer,
    prev: &[u8],
    cur: &[u8],
    results: &RawResults,
) -> Result<InterpreterOutcome, String> {
    run_raw(part, peer, prev, cur, encode_results(results), &Limits::default())
}

#[derive(Clone, Debug, PartialEq, Eq, Hash, PartialOrd, Ord)]
pub struct Req {
    pub service: String,
    pub function: String,
    /// canonical JSON text of each argument
    pub args: Vec<String>,
    /// (peer_pk, service_id, function_name, lens) per argument, per element
    pub tetraplets: Vec<Vec<(String, String, String, String)>>,
}

impl Req {
    pub fn args_json(&self) -> Vec<Value> {
        self.args.iter().map(|a| serde_json::from_str(a).unwrap()).collect()
    }
}

pub fn decode_requests(bytes: &[u8]) -> Result<BTreeMap<u32, Req>, String> {
    let reqs: air_interpreter_interface::CallRequests =
        CallRequestsRepr.deserialize(bytes).map_err(|e| format!("call requests: {e}"))?;
    let mut out = BTreeMap::new();
    for (id, p) in reqs {
        let args: Vec<Value> = CallArgumentsRepr.deserialize(&p.arguments).map_err(|e| format!("args: {e}"))?;
        let tets: Vec<Vec<SecurityTetraplet>> =
            TetrapletsRepr.deserialize(&p.tetraplets).map_err(|e| format!("tetraplets: {e}"))?;
        out.insert(
            id,
            Req {
                service: p.service_id,
                function: p.function_name,
                args: args.iter().map(canon_json_text).collect(),
                tetraplets: tets
                    .into_iter()
                    .map(|v| {
                        v.into_iter().map(|t| (t.peer_pk, t.service_id, t.function_name, t.lens)).collect()
                    })
                    .collect(),
            },
        );
    }
    Ok(out)
}

/// JSON text with object keys sorted recursively.
pub fn canon_json_text(v: &Value) -> String {
    let mut s = String::new();
    write_canon(v, &mut s);
    s
}

fn write_canon(v: &Value, out: &mut String) {
    match v {
        Value::Array(a) => {
            out.push('[');
            for (i, x) in a.iter().enumerate() {
                if i > 0 {
                    out.push(',');
                }
                write_canon(x, out);
            }
            out.push(']');
        }
        Value::Object(m) => {
            let mut keys: Vec<&String> = m.keys().collect();
            keys.sort();
            out.push('{');
            for (i, k) in keys.iter().enumerate() {
                if i > 0 {
                    out.push(',');
                }
                out.push_str(&serde_json::to_string(k).unwrap());
                out.push(':');
                write_canon(&m[*k], out);
            }
            out.push('}');
        }
        other => out.push_str(&other.to_string()),
    }
}

/// The deterministic service oracle: a total function of (peer name, service, function, arguments).
/// Function-name prefixes select the answer class.
pub struct Oracle {
    /// peer name -> peer id, for `peer<NAME>...` functions
    pub ids: BTreeMap<String, String>,
    /// optional suffix distinguishing two "worlds" (C15 equivocation): answers of this peer name differ
    pub equivocator: Option<(String, String)>,
}

pub const BAD_JSON: &str = "not json {";

impl Oracle {
    pub fn answer(&self, peer_name: &str, req: &Req) -> CallServiceResult {
        let f = req.function.as_str();
        let tag = match &self.equivocator {
            Some((p, t)) if p == peer_name => Some(t.clone()),
            _ => None,
        };
        if f.starts_with("fail") {
            let mut msg = format!("err:{peer_name}:{f}:{}", req.args.join(","));
            if let Some(t) = &tag {
                msg.push_str(t);
            }
            return CallServiceResult { ret_code: 1, result: Value::String(msg).to_string() };
        }
        if f.starts_with("bad") {
            return CallServiceResult { ret_code: 0, result: BAD_JSON.to_string() };
        }
        if f.starts_with("arr") {
            let v = json!([format!("{f}-0"), format!("{f}-1")]);
            return CallServiceResult { ret_code: 0, result: v.to_string() };
        }
        if let Some(rest) = f.strip_prefix("peer") {
            // peerB_xxx -> id of B
            let name: String = rest.chars().take_while(|c| c.is_ascii_uppercase()).collect();
            let id = self.ids.get(&name).cloned().unwrap_or_else(|| name.clone());
            return CallServiceResult { ret_code: 0, result: Value::String(id).to_string() };
        }
        if f.starts_with("errobj") {
            let v = json!({"error_code": 77, "message": format!("m-{peer_name}-{f}")});
            return CallServiceResult { ret_code: 0, result: v.to_string() };
        }
        if f.starts_with("ptab") {
            let v: serde_json::Map<String, Value> = self.ids.iter().map(|(k, v)| (k.clone(), Value::String(v.clone()))).collect();
            return CallServiceResult { ret_code: 0, result: Value::Object(v).to_string() };
        }
        if f.starts_with("num") {
            return CallServiceResult { ret_code: 0, result: "42".into() };
        }
        if f.starts_with("raw") {
            // raw JSON answer given as first argument (used by input enumerations)
            let v = req.args.first().cloned().unwrap_or_else(|| "null".into());
            return CallServiceResult { ret_code: 0, result: v };
        }
        if let Some(plan) = f.strip_prefix("route") {
            // hop-by-hop route discovery: the k-th answer names the (k+1)-th peer of the plan; the last one is marked done
            let plan: Vec<char> = plan.chars().collect();
            let n = req.args_json().first().and_then(|a| a["n"].as_i64()).map(|n| n + 1).unwrap_or(0) as usize;
            let done = n >= plan.len();
            let target = if done { peer_name.to_string() } else { plan[n].to_string() };
            let id = self.ids.get(&target).cloned().unwrap_or(target);
            let v = json!({"p": peer_name, "f": f, "n": n, "peer": id, "done": done});
            return CallServiceResult { ret_code: 0, result: v.to_string() };
        }
        let mut v = json!({"p": peer_name, "f": f, "a": req.args_json()});
        if f.starts_with("rec") {
            // bounded recursion: depth of the value = depth of the first argument + 1
            let d = req.args_json().first().and_then(|a| a["d"].as_i64()).map(|d| d + 1).unwrap_or(0);
            v["d"] = json!(d);
        }
        if let Some(t) = tag {
            v["w"] = Value::String(t);
        }
        CallServiceResult { ret_code: 0, result: v.to_string() }
    }
}

pub fn outcome_code_class(code: i64) -> &'static str {
    match code {
        0 => "ok",
        1..=9999 => "prep",
        10000..=19999 => "catchable",
        20000..=29999 => "uncatchable",
        30000 => "unprocessed",
        _ => "other",
    }
}

// ---------------------------------------------------------------------------------------------
// stderr handling: the repository's parser prints diagnostics to stderr; fd 2 is pointed at /dev/null and
// the harness logs through a saved duplicate.
static SAVED_STDERR: std::sync::atomic::AtomicI32 = std::sync::atomic::AtomicI32::new(2);

pub fn silence_stderr() {
    unsafe {
        let saved = libc::dup(2);
        let devnull = libc::open(b"/dev/null\0".as_ptr() as *const libc::c_char, libc::O_WRONLY);
        if saved >= 0 && devnull >= 0 {
            libc::dup2(devnull, 2);
            libc::close(devnull);
            SAVED_STDERR.store(saved, std::sync::atomic::Ordering::SeqCst);
        }
    }
}

pub fn elog(msg: &str) {
    let fd = SAVED_STDERR.load(std::sync::atomic::Ordering::SeqCst);
    let line = format!("{msg}\n");
    unsafe {
        libc::write(fd, line.as_ptr() as *const libc::c_void, line.len());
    }
}
