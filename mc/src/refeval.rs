//! RefEval: an independent evaluator of the sequential reading of the SEQ fragment (DESIGN.md section 6).
//! One omniscient executor, services answered immediately by the service oracle. Shares no code with `air/`.

use crate::data::Tet;
use crate::host::{Oracle, Req};
use crate::script::*;

use serde_json::Value;
use std::collections::BTreeMap;

#[derive(Clone, Debug)]
pub struct RV {
    pub v: Value,
    pub tet: Tet,
}

#[derive(Clone, Debug, PartialEq)]
pub struct ExpCall {
    pub peer: String,
    pub svc: String,
    pub func: String,
    pub args: Vec<Value>,
    pub tets: Vec<Vec<Tet>>,
    /// arguments not predicted (e.g. they mention `:error:`); only peer/service/function are compared
    pub wild: bool,
    /// textual index of the call site
    pub site: usize,
}

#[derive(Clone, Debug, PartialEq)]
pub enum Fin {
    Complete,
    Incomplete,
    Failed(String),
}

#[derive(Default, Clone, Debug)]
pub struct RefOut {
    pub calls: Vec<ExpCall>,
    pub xor_right_taken: u32,
    pub match_skipped: u32,
    pub max_fold_iterations: u32,
    pub waits: u32,
    pub fin: Option<Fin>,
    /// the evaluator met something outside its fragment; the script must not be used with RefEval-based oracles
    pub unsupported: Option<String>,
}

struct Frame {
    vars: BTreeMap<String, RV>,
    hidden: bool,
}

struct Ev<'a> {
    oracle: &'a Oracle,
    ids: &'a PeerIds,
    init_id: String,
    frames: Vec<Frame>,
    /// fold iterators: name -> (array, tetraplet of the array, cursor, body, last)
    iters: Vec<(String, Vec<Value>, Tet, usize, &'a I, Option<&'a I>)>,
    news: Vec<(String, usize)>,
    out: RefOut,
    site_of: BTreeMap<*const I, usize>,
}

enum Res {
    Val(RV),
    Wait,
    Fail(String),
    Unsupported(String),
}

fn nav(v: &Value, path: &str, lookup: &dyn Fn(&str) -> Option<Value>) -> Result<Value, String> {
    // path like ".a.[0].[k]" (text after ".$")
    let mut cur = v.clone();
    let mut rest = path;
    while !rest.is_empty() {
        let r = rest.strip_prefix('.').ok_or_else(|| format!("bad path {path}"))?;
        let end = r.find('.').unwrap_or(r.len());
        let seg = &r[..end];
        rest = &r[end..];
        let seg = seg.trim_end_matches('!');
        if let Some(inner) = seg.strip_prefix('[').and_then(|s| s.strip_suffix(']')) {
            if let Ok(idx) = inner.parse::<usize>() {
                cur = cur.as_array().and_then(|a| a.get(idx)).cloned().ok_or_else(|| format!("index {idx} not available"))?;
            } else {
                let key = lookup(inner).ok_or_else(|| format!("scalar {inner} undefined"))?;
                cur = match key {
                    Value::String(s) => cur.as_object().and_then(|o| o.get(&s)).cloned().ok_or_else(|| format!("field {s} missing"))?,
                    Value::Number(n) if n.is_u64() => {
                        cur.as_array().and_then(|a| a.get(n.as_u64().unwrap() as usize)).cloned().ok_or_else(|| "index missing".to_string())?
                    }
                    other => return Err(format!("accessor {other} unusable")),
                };
            }
        } else {
            cur = cur.as_object().and_then(|o| o.get(seg)).cloned().ok_or_else(|| format!("field {seg} missing"))?;
        }
    }
    Ok(cur)
}

impl<'a> Ev<'a> {
    fn lit_tet(&self) -> Tet {
        (self.init_id.clone(), String::new(), String::new(), String::new())
    }

    fn lookup(&self, name: &str) -> Option<RV> {
        // iterators first (innermost), then scalar frames
        for (n, arr, tet, cur, _, _) in self.iters.iter().rev() {
            if n == name {
                let mut t = tet.clone();
                t.3.push_str(&format!(".$.[{cur}]"));
                return Some(RV { v: arr[*cur].clone(), tet: t });
            }
        }
        for f in self.frames.iter().rev() {
            if f.hidden {
                continue;
            }
            if let Some(v) = f.vars.get(name) {
                return Some(v.clone());
            }
        }
        None
    }

    fn set(&mut self, name: &str, v: RV) {
        self.frames.last_mut().unwrap().vars.insert(name.to_string(), v);
    }

    fn resolve(&self, a: &Arg) -> Res {
        match a {
            Arg::Str(s) => Res::Val(RV { v: Value::String(s.clone()), tet: self.lit_tet() }),
            Arg::Num(n) => Res::Val(RV { v: serde_json::json!(n), tet: self.lit_tet() }),
            Arg::Bool(b) => Res::Val(RV { v: Value::Bool(*b), tet: self.lit_tet() }),
            Arg::EmptyArr => Res::Val(RV { v: serde_json::json!([]), tet: self.lit_tet() }),
            Arg::InitPeer => Res::Val(RV { v: Value::String(self.init_id.clone()), tet: self.lit_tet() }),
            Arg::Var(x) => match self.lookup(x) {
                Some(v) => Res::Val(v),
                None => Res::Wait,
            },
            Arg::Lens(x, p) => match self.lookup(x) {
                None => Res::Wait,
                Some(rv) => {
                    let lk = |n: &str| self.lookup(n).map(|r| r.v);
                    match nav(&rv.v, p, &lk) {
                        Ok(v) => {
                            let mut t = rv.tet.clone();
                            t.3.push_str(&format!(".${p}"));
                            Res::Val(RV { v, tet: t })
                        }
                        Err(e) if e.contains("undefined") => Res::Wait,
                        Err(e) => Res::Fail(format!("lens: {e}")),
                    }
                }
            },
            other => Res::Unsupported(format!("argument {other:?}")),
        }
    }

    fn eval(&mut self, i: &'a I) -> Fin {
        if self.out.unsupported.is_some() {
            return Fin::Incomplete;
        }
        match i {
            I::Null => Fin::Complete,
            I::Never => Fin::Incomplete,
            I::Seq(a, b) => match self.eval(a) {
                Fin::Complete => self.eval(b),
                other => other,
            },
            I::Par(a, b) => {
                let l = self.eval(a);
                let r = self.eval(b);
                match (l, r) {
                    (Fin::Failed(_), Fin::Failed(e)) => Fin::Failed(e),
                    (Fin::Complete, _) | (_, Fin::Complete) => Fin::Complete,
                    _ => Fin::Incomplete,
                }
            }
            I::Xor(a, b) => match self.eval(a) {
                Fin::Failed(_) => {
                    self.out.xor_right_taken += 1;
                    self.eval(b)
                }
                other => other,
            },
            I::Match(x, y, body) | I::Mismatch(x, y, body) => {
                let (rx, ry) = (self.resolve(x), self.resolve(y));
                match (rx, ry) {
                    (Res::Val(a), Res::Val(b)) => {
                        let eq = a.v == b.v;
                        let run = if matches!(i, I::Match(..)) { eq } else { !eq };
                        if run {
                            self.eval(body)
                        } else {
                            self.out.match_skipped += 1;
                            Fin::Failed("match/mismatch".into())
                        }
                    }
                    (Res::Unsupported(u), _) | (_, Res::Unsupported(u)) => {
                        self.out.unsupported = Some(u);
                        Fin::Incomplete
                    }
                    (Res::Fail(e), _) | (_, Res::Fail(e)) => Fin::Failed(e),
                    _ => {
                        self.out.waits += 1;
                        Fin::Incomplete
                    }
                }
            }
            I::Fail(_) => Fin::Failed("fail".into()),
            I::Ap { src, dst } => {
                if dst.starts_with('$') || dst.starts_with('%') {
                    self.out.unsupported = Some("ap into stream".into());
                    return Fin::Incomplete;
                }
                match self.resolve(src) {
                    Res::Val(v) => {
                        self.set(dst, v);
                        Fin::Complete
                    }
                    Res::Wait => {
                        self.out.waits += 1;
                        Fin::Incomplete
                    }
                    Res::Fail(e) => Fin::Failed(e),
                    Res::Unsupported(u) => {
                        self.out.unsupported = Some(u);
                        Fin::Incomplete
                    }
                }
            }
            I::New(v, body) => {
                if v.starts_with('$') || v.starts_with('#') || v.starts_with('%') {
                    // stream-like scopes do not influence scalar evaluation
                    return self.eval(body);
                }
                // `new x` hides an outer x until its body ends
                self.frames.push(Frame { vars: BTreeMap::new(), hidden: false });
                self.news.push((v.clone(), self.frames.len() - 1));
                // hide by binding nothing: lookups of v must not see outer frames
                let saved: Vec<Option<RV>> = self.frames.iter_mut().map(|f| f.vars.remove(v)).collect();
                let r = self.eval(body);
                for (f, s) in self.frames.iter_mut().zip(saved) {
                    if let Some(s) = s {
                        f.vars.insert(v.clone(), s);
                    }
                }
                self.news.pop();
                // variables set inside the scope other than v stay visible (new only restricts v)
                let top = self.frames.pop().unwrap();
                for (k, val) in top.vars {
                    if &k != v {
                        self.set(&k, val);
                    }
                }
                r
            }
            I::Fold { iterable, iter, body, last } => {
                let arr = match self.resolve(iterable) {
                    Res::Val(rv) => rv,
                    Res::Wait => {
                        self.out.waits += 1;
                        return Fin::Incomplete;
                    }
                    Res::Fail(e) => return Fin::Failed(e),
                    Res::Unsupported(u) => {
                        self.out.unsupported = Some(u);
                        return Fin::Incomplete;
                    }
                };
                let Some(items) = arr.v.as_array().cloned() else {
                    return Fin::Failed("fold over non-array".into());
                };
                if items.is_empty() {
                    return Fin::Complete;
                }
                self.out.max_fold_iterations = self.out.max_fold_iterations.max(items.len() as u32);
                self.iters.push((iter.clone(), items, arr.tet.clone(), 0, body, last.as_deref()));
                self.frames.push(Frame { vars: BTreeMap::new(), hidden: false });
                let r = self.eval(body);
                self.frames.pop();
                self.iters.pop();
                r
            }
            I::Next(name) => {
                let Some(ix) = self.iters.iter().rposition(|x| &x.0 == name) else {
                    self.out.unsupported = Some(format!("next {name} outside fold"));
                    return Fin::Incomplete;
                };
                let (len, cur, body, last) = {
                    let e = &self.iters[ix];
                    (e.1.len(), e.3, e.4, e.5)
                };
                if cur + 1 >= len {
                    return match last {
                        Some(l) => self.eval(l),
                        None => Fin::Complete,
                    };
                }
                // the next iteration runs in a fresh scope; the current iteration's scope is not visible from it
                self.iters[ix].3 = cur + 1;
                if let Some(f) = self.frames.last_mut() {
                    f.hidden = true;
                }
                self.frames.push(Frame { vars: BTreeMap::new(), hidden: false });
                let r = self.eval(body);
                self.frames.pop();
                if let Some(f) = self.frames.last_mut() {
                    f.hidden = false;
                }
                self.iters[ix].3 = cur;
                r
            }
            I::Call { peer, svc, func, args, out } => {
                // resolve the peer
                let peer_id = match peer {
                    PeerRef::Name(n) => self.ids.get(n).cloned().unwrap_or_else(|| n.clone()),
                    PeerRef::InitPeer => self.init_id.clone(),
                    PeerRef::Var(x) => match self.resolve(&Arg::Var(x.clone())) {
                        Res::Val(rv) => match rv.v {
                            Value::String(s) => s,
                            _ => return Fin::Failed("non-string peer".into()),
                        },
                        Res::Wait => {
                            self.out.waits += 1;
                            return Fin::Incomplete;
                        }
                        Res::Fail(e) => return Fin::Failed(e),
                        Res::Unsupported(u) => {
                            self.out.unsupported = Some(u);
                            return Fin::Incomplete;
                        }
                    },
                    PeerRef::Lens(x, p) => match self.resolve(&Arg::Lens(x.clone(), p.clone())) {
                        Res::Val(rv) => match rv.v {
                            Value::String(s) => s,
                            _ => return Fin::Failed("non-string peer".into()),
                        },
                        Res::Wait => {
                            self.out.waits += 1;
                            return Fin::Incomplete;
                        }
                        Res::Fail(e) => return Fin::Failed(e),
                        Res::Unsupported(u) => {
                            self.out.unsupported = Some(u);
                            return Fin::Incomplete;
                        }
                    },
                    PeerRef::Raw(r) => {
                        self.out.unsupported = Some(format!("raw peer {r}"));
                        return Fin::Incomplete;
                    }
                };
                let peer_name = self.ids.iter().find(|(_, id)| **id == peer_id).map(|(n, _)| n.clone()).unwrap_or(peer_id.clone());
                let mut vals = vec![];
                let mut tets = vec![];
                let mut wild = false;
                for a in args {
                    match a {
                        Arg::Error(_) | Arg::LastError | Arg::LastErrorLens(_) | Arg::Timestamp | Arg::Ttl => {
                            wild = true;
                            vals.push(Value::Null);
                            tets.push(vec![]);
                        }
                        _ => match self.resolve(a) {
                            Res::Val(rv) => {
                                vals.push(rv.v);
                                tets.push(vec![rv.tet]);
                            }
                            Res::Wait => {
                                self.out.waits += 1;
                                return Fin::Incomplete;
                            }
                            Res::Fail(e) => return Fin::Failed(e),
                            Res::Unsupported(u) => {
                                self.out.unsupported = Some(u);
                                return Fin::Incomplete;
                            }
                        },
                    }
                }
                let site = self.site_of.get(&(i as *const I)).cloned().unwrap_or(usize::MAX);
                self.out.calls.push(ExpCall { peer: peer_name.clone(), svc: svc.clone(), func: func.clone(), args: vals.clone(), tets, wild, site });
                if wild {
                    // answer cannot be predicted either; handler calls have no output in the families
                    return Fin::Complete;
                }
                let req = Req { service: svc.clone(), function: func.clone(), args: vals.iter().map(crate::host::canon_json_text).collect(), tetraplets: vec![] };
                let ans = self.oracle.answer(&peer_name, &req);
                if ans.ret_code != 0 {
                    return Fin::Failed("service error".into());
                }
                let Ok(v) = serde_json::from_str::<Value>(&ans.result) else {
                    return Fin::Failed("non-json".into());
                };
                match out {
                    Out::Scalar(x) => {
                        self.set(x, RV { v, tet: (peer_id, svc.clone(), func.clone(), String::new()) });
                    }
                    Out::Stream(_) => {
                        self.out.unsupported = Some("stream output".into());
                    }
                    Out::None => {}
                }
                Fin::Complete
            }
            I::ApMap { .. } | I::Canon { .. } => {
                self.out.unsupported = Some("stream instruction".into());
                Fin::Incomplete
            }
        }
    }
}

pub fn ref_eval(ast: &I, ids: &PeerIds, init_peer: &str, oracle: &Oracle) -> RefOut {
    let mut site_of = BTreeMap::new();
    for (n, c) in calls(ast).into_iter().enumerate() {
        site_of.insert(c as *const I, n);
    }
    let mut ev = Ev {
        oracle,
        ids,
        init_id: ids.get(init_peer).cloned().unwrap_or_default(),
        frames: vec![Frame { vars: BTreeMap::new(), hidden: false }],
        iters: vec![],
        news: vec![],
        out: RefOut::default(),
        site_of,
    };
    let fin = ev.eval(ast);
    ev.out.fin = Some(fin);
    ev.out
}
