//! Engine E2: bounded-exhaustive input enumeration against boring reference models.
//! C25 (content ids) and C26 (the interpreter's JSON value type). Every case is a small JSON document, so a
//! violation is replayed by re-evaluating exactly that case (`mc replay`), without the enumerator.

use crate::check::{Report, Tier, Violation};

use air_interpreter_cid::{raw_value_to_json_cid, value_to_json_cid, verify_raw_value, verify_value, CID};
use air_interpreter_value::JValue;
use serde_json::{json, Value};
use std::collections::{BTreeMap, BTreeSet};

type Found = Vec<(String, String)>;

// ---------------------------------------------------------------------------------------------
// the value universe

fn leaves() -> Vec<Value> {
    let mut v = vec![Value::Null, json!(true), json!(false)];
    for n in [0i64, 1, -1, 42, i64::MAX, i64::MIN, i64::MIN + 1, 9007199254740993] {
        v.push(json!(n));
    }
    for n in [u64::MAX, i64::MAX as u64 + 1] {
        v.push(json!(n));
    }
    for f in [0.0f64, -0.0, 1.0, 0.5, -1.5, 0.1, 1e300, -1e-300, 5e-324, f64::MAX, f64::MIN, 9007199254740993.0, 1e21, 1e-7] {
        v.push(json!(f));
    }
    for s in ["", "a", "b", "\"", "\\", "/", "\n", "\t", "\u{0}", "\u{1f}", "\u{7f}", "é", "😀", "\u{2028}", "\u{feff}", "null", "1", "a\"b\\c"] {
        v.push(json!(s));
    }
    v
}

fn small() -> Vec<Value> {
    vec![Value::Null, json!(true), json!(0), json!(-1), json!(u64::MAX), json!(0.5), json!(""), json!("a"), json!("é")]
}

const KEYS: [&str; 6] = ["", "a", "b", "é", "\"", "a\nb"];

fn obj(pairs: &[(&str, Value)]) -> Value {
    Value::Object(pairs.iter().map(|(k, v)| (k.to_string(), v.clone())).collect())
}

fn depth1() -> Vec<Value> {
    let mut out = vec![json!([]), json!({})];
    for l in leaves() {
        out.push(json!([l]));
    }
    for a in small() {
        for b in small() {
            out.push(json!([a, b]));
        }
    }
    for k in KEYS {
        for l in small() {
            out.push(obj(&[(k, l)]));
        }
    }
    let tiny = [Value::Null, json!(1), json!("a")];
    for (i, k1) in KEYS.iter().enumerate() {
        for k2 in &KEYS[i + 1..] {
            for a in &tiny {
                for b in &tiny {
                    out.push(obj(&[(k1, a.clone()), (k2, b.clone())]));
                }
            }
        }
    }
    out
}

pub fn universe(tier: Tier) -> Vec<Value> {
    let stride = if tier == Tier::Quick { 5 } else { 1 };
    let mut out = leaves();
    let d1 = depth1();
    out.extend(d1.iter().cloned());
    for (i, c) in d1.iter().enumerate() {
        if i % stride != 0 {
            continue;
        }
        out.push(json!([c]));
        out.push(json!([c, 1]));
        out.push(obj(&[("k", c.clone())]));
    }
    let cs = [json!([]), json!({}), json!([1]), json!({"a": 1}), json!([[]]), json!({"": {}})];
    for a in &cs {
        for b in &cs {
            out.push(obj(&[("a", a.clone()), ("b", b.clone())]));
            out.push(json!([a, b, [a, b]]));
        }
    }
    // distinct by canonical text
    let mut seen = BTreeSet::new();
    out.retain(|v| seen.insert(v.to_string()));
    out
}

fn value_nontrivial(v: &Value) -> bool {
    match v {
        Value::Number(n) => n.is_f64() || n.as_i64().map(|i| i.unsigned_abs() > (1 << 53)).unwrap_or(true),
        Value::String(s) => s.chars().any(|c| c == '"' || c == '\\' || (c as u32) < 0x20 || (c as u32) > 0x7e),
        Value::Array(a) => a.iter().any(|x| x.is_array() || x.is_object() || value_nontrivial(x)),
        Value::Object(o) => o.iter().any(|(k, x)| x.is_array() || x.is_object() || value_nontrivial(x) || value_nontrivial(&json!(k))),
        _ => false,
    }
}

// ---------------------------------------------------------------------------------------------
// C26

fn f64_bits(x: Option<f64>) -> Option<u64> {
    x.map(|f| f.to_bits())
}

/// Everything C26 says about one value; `text` is the compact serde_json text of the value.
fn c26_value(text: &str) -> Found {
    let mut out: Found = vec![];
    let mut bad = |tag: &str, d: String| out.push((format!("C26/{tag}"), d));
    let v: Value = match serde_json::from_str(text) {
        Ok(v) => v,
        Err(e) => {
            bad("MACHINERY-case-text", format!("{text}: {e}"));
            return out;
        }
    };
    let j = JValue::from(&v);
    // conversion back
    match serde_json::to_value(&j) {
        Ok(back) => {
            if back != v || back.to_string() != v.to_string() {
                bad("conversion-round-trip", format!("{text}: JValue::from then to_value gives {back}"));
            }
        }
        Err(e) => bad("conversion-round-trip", format!("{text}: to_value failed: {e}")),
    }
    // printing
    let tv = v.to_string();
    let tj = j.to_string();
    let tj2 = serde_json::to_string(&j).unwrap_or_else(|e| format!("<error {e}>"));
    if tj != tv || tj2 != tv {
        bad("printing", format!("serde_json prints {tv}; JValue Display prints {tj}; serde_json::to_string(JValue) prints {tj2}"));
    }
    let pv = serde_json::to_string_pretty(&v).unwrap();
    let pj = format!("{j:#}");
    if pv != pj {
        bad("pretty-printing", format!("serde_json prints {pv:?}; JValue prints {pj:?}"));
    }
    // parsing
    for (what, t) in [("compact", &tv), ("pretty", &pv)] {
        match serde_json::from_str::<JValue>(t) {
            Ok(p) => {
                if p != j || p.to_string() != tv {
                    bad("parsing", format!("{what} text {t:?} parses to JValue {p} instead of {tv}"));
                }
            }
            Err(e) => bad("parsing", format!("{what} text {t:?} is rejected by JValue: {e}")),
        }
    }
    match serde_json::from_slice::<JValue>(tv.as_bytes()) {
        Ok(p) if p == j => {}
        other => bad("parsing", format!("from_slice of {tv:?} gives {other:?}")),
    }
    // accessors
    let kinds_v = (v.is_null(), v.is_boolean(), v.is_number(), v.is_string(), v.is_array(), v.is_object(), v.is_i64(), v.is_u64(), v.is_f64());
    let kinds_j = (j.is_null(), j.is_boolean(), j.is_number(), j.is_string(), j.is_array(), j.is_object(), j.is_i64(), j.is_u64(), j.is_f64());
    if kinds_v != kinds_j {
        bad("accessors", format!("{text}: kind predicates {kinds_j:?}, serde_json has {kinds_v:?}"));
    }
    if v.as_bool() != j.as_bool() || v.as_i64() != j.as_i64() || v.as_u64() != j.as_u64() || f64_bits(v.as_f64()) != f64_bits(j.as_f64()) || v.as_str() != j.as_str().map(|s| &**s) {
        bad("accessors", format!("{text}: as_bool/as_i64/as_u64/as_f64/as_str differ from serde_json"));
    }
    // navigation
    match &v {
        Value::Array(a) => {
            let ja = j.as_array().map(|x| x.len());
            if ja != Some(a.len()) {
                bad("navigation", format!("{text}: array length {ja:?}"));
            }
            for i in 0..=a.len() {
                let want = a.get(i).map(JValue::from);
                if j.get(i).cloned() != want || j.pointer(&format!("/{i}")).cloned() != want {
                    bad("navigation", format!("{text}: element {i}"));
                }
            }
        }
        Value::Object(o) => {
            let jo = j.as_object().map(|x| x.len());
            if jo != Some(o.len()) {
                bad("navigation", format!("{text}: object size {jo:?}"));
            }
            for k in KEYS.iter().copied().chain(["k", "zz"]) {
                let want = o.get(k).map(JValue::from);
                if j.get(k).cloned() != want {
                    bad("navigation", format!("{text}: key {k:?}"));
                }
            }
        }
        _ => {}
    }
    out
}

fn c26_pair(ta: &str, tb: &str) -> Found {
    let (Ok(a), Ok(b)) = (serde_json::from_str::<Value>(ta), serde_json::from_str::<Value>(tb)) else {
        return vec![("C26/MACHINERY-case-text".into(), format!("{ta} / {tb}"))];
    };
    let (ja, jb) = (JValue::from(&a), JValue::from(&b));
    let mut out = vec![];
    if (ja == jb) != (a == b) {
        out.push(("C26/comparison".into(), format!("{ta} == {tb}: serde_json says {}, JValue says {}", a == b, ja == jb)));
    }
    out
}

// ---------------------------------------------------------------------------------------------
// C25

const JSON_CODEC: u64 = 0x0200;
const SHA2_256: u64 = 0x12;
const BLAKE3: u64 = 0x1e;

fn varint(mut x: u64, out: &mut Vec<u8>) {
    loop {
        let b = (x & 0x7f) as u8;
        x >>= 7;
        if x == 0 {
            out.push(b);
            return;
        }
        out.push(b | 0x80);
    }
}

fn base32(bytes: &[u8], alphabet: &[u8; 32]) -> String {
    let mut out = String::new();
    let (mut acc, mut bits) = (0u32, 0u32);
    for b in bytes {
        acc = (acc << 8) | *b as u32;
        bits += 8;
        while bits >= 5 {
            out.push(alphabet[((acc >> (bits - 5)) & 31) as usize] as char);
            bits -= 5;
        }
    }
    if bits > 0 {
        out.push(alphabet[((acc << (5 - bits)) & 31) as usize] as char);
    }
    out
}

/// Reference framing of a CID: version, codec, multihash (code, length, digest), multibase text.
fn frame(version: u64, codec: u64, code: u64, digest: &[u8], base: char) -> String {
    let mut b = vec![];
    varint(version, &mut b);
    varint(codec, &mut b);
    varint(code, &mut b);
    varint(digest.len() as u64, &mut b);
    b.extend_from_slice(digest);
    match base {
        'b' => format!("b{}", base32(&b, b"abcdefghijklmnopqrstuvwxyz234567")),
        'B' => format!("B{}", base32(&b, b"ABCDEFGHIJKLMNOPQRSTUVWXYZ234567")),
        'f' => format!("f{}", b.iter().map(|x| format!("{x:02x}")).collect::<String>()),
        'z' => format!("z{}", bs58::encode(&b).into_string()),
        _ => unreachable!(),
    }
}

fn sha256(b: &[u8]) -> Vec<u8> {
    use sha2::{Digest, Sha256};
    Sha256::digest(b).to_vec()
}

fn sha512(b: &[u8]) -> Vec<u8> {
    use sha2::{Digest, Sha512};
    Sha512::digest(b).to_vec()
}

fn blake3(b: &[u8]) -> Vec<u8> {
    fluence_blake3::hash(b).as_bytes().to_vec()
}

#[derive(Clone, Copy, PartialEq)]
enum Want {
    Accept,
    Reject,
    /// the statement does not decide it (same id in another text encoding): observed, not judged
    Either,
}

/// The mutation catalogue: name -> (id text, expected verdict) for the canonical bytes `bytes` of a value.
fn cid_mutations(bytes: &[u8]) -> Vec<(String, String, Want)> {
    let hb = blake3(bytes);
    let hs = sha256(bytes);
    let mut other = bytes.to_vec();
    other.push(b' ');
    let mut m: Vec<(String, String, Want)> = vec![];
    let mut add = |n: &str, t: String, w: Want| m.push((n.to_string(), t, w));
    add("blake3", frame(1, JSON_CODEC, BLAKE3, &hb, 'b'), Want::Accept);
    add("sha2-256", frame(1, JSON_CODEC, SHA2_256, &hs, 'b'), Want::Accept);
    for base in ['B', 'f', 'z'] {
        add(&format!("blake3-base-{base}"), frame(1, JSON_CODEC, BLAKE3, &hb, base), Want::Either);
        add(&format!("sha2-base-{base}"), frame(1, JSON_CODEC, SHA2_256, &hs, base), Want::Either);
        let mut d = hb.clone();
        d[5] ^= 0x10;
        add(&format!("altered-digest-base-{base}"), frame(1, JSON_CODEC, BLAKE3, &d, base), Want::Reject);
    }
    for codec in [0x55u64, 0x70, 0x71, 0x0129, 0x0201, 0x00, 0x01ff] {
        add(&format!("codec-{codec:#x}-blake3"), frame(1, codec, BLAKE3, &hb, 'b'), Want::Reject);
        add(&format!("codec-{codec:#x}-sha2"), frame(1, codec, SHA2_256, &hs, 'b'), Want::Reject);
    }
    add("hash-code-sha2-512", frame(1, JSON_CODEC, 0x13, &sha512(bytes), 'b'), Want::Reject);
    add("hash-code-sha3-256", frame(1, JSON_CODEC, 0x16, &hs, 'b'), Want::Reject);
    add("hash-code-blake2b-256", frame(1, JSON_CODEC, 0xb220, &hb, 'b'), Want::Reject);
    add("hash-code-identity", frame(1, JSON_CODEC, 0x00, &bytes[..bytes.len().min(60)], 'b'), Want::Reject);
    add("hash-code-unknown", frame(1, JSON_CODEC, 0x1f, &hb, 'b'), Want::Reject);
    add("blake3-code-with-sha2-digest", frame(1, JSON_CODEC, BLAKE3, &hs, 'b'), Want::Reject);
    add("sha2-code-with-blake3-digest", frame(1, JSON_CODEC, SHA2_256, &hb, 'b'), Want::Reject);
    for (hn, code, h) in [("blake3", BLAKE3, &hb), ("sha2", SHA2_256, &hs)] {
        for len in [0usize, 1, 16, 31] {
            add(&format!("truncated-{hn}-{len}"), frame(1, JSON_CODEC, code, &h[..len], 'b'), Want::Reject);
        }
        let mut longer = h.clone();
        longer.push(0);
        add(&format!("extended-{hn}-33"), frame(1, JSON_CODEC, code, &longer, 'b'), Want::Reject);
        for (bn, idx, bit) in [("first", 0usize, 0x01u8), ("last", 31, 0x80), ("middle", 16, 0x08)] {
            let mut d = h.clone();
            d[idx] ^= bit;
            add(&format!("altered-{hn}-{bn}"), frame(1, JSON_CODEC, code, &d, 'b'), Want::Reject);
        }
    }
    add("digest-of-other-value-blake3", frame(1, JSON_CODEC, BLAKE3, &blake3(&other), 'b'), Want::Reject);
    add("digest-of-other-value-sha2", frame(1, JSON_CODEC, SHA2_256, &sha256(&other), 'b'), Want::Reject);
    for ver in [0u64, 2, 3] {
        add(&format!("version-{ver}"), frame(ver, JSON_CODEC, BLAKE3, &hb, 'b'), Want::Reject);
    }
    let good = frame(1, JSON_CODEC, BLAKE3, &hb, 'b');
    add("cut-2-chars", good[..good.len() - 2].to_string(), Want::Reject);
    add("cut-half", good[..good.len() / 2].to_string(), Want::Reject);
    add("no-multibase-prefix", good[1..].to_string(), Want::Reject);
    for (i, g) in ["", "b", "bagaa", "not a cid", "Qm", "QmYwAPJzv5CZsnA625s3Xf2nemtYgPpHdWEz79ojWnPbdG", "\u{0}", "béé"].iter().enumerate() {
        add(&format!("garbage-{i}"), g.to_string(), Want::Reject);
    }
    m
}

fn judge(name: &str, what: &str, ok: bool, err: String, want: Want, text: &str, id: &str, out: &mut Found) {
    match (want, ok) {
        (Want::Accept, false) => out.push((format!("C25/matching-id-rejected/{name}"), format!("{what}: value {text} with id {id:?} ({name}) is rejected: {err}"))),
        (Want::Reject, true) => out.push((format!("C25/non-matching-id-accepted/{name}"), format!("{what}: value {text} is accepted under id {id:?} ({name})"))),
        _ => {}
    }
}

/// The ids of one value (all ways of computing them agree with the reference framing).
fn c25_value(text: &str) -> Found {
    let mut out: Found = vec![];
    let Ok(v) = serde_json::from_str::<Value>(text) else {
        return vec![("C25/MACHINERY-case-text".into(), text.to_string())];
    };
    let bytes = serde_json::to_vec(&v).unwrap();
    let want = frame(1, JSON_CODEC, BLAKE3, &blake3(&bytes), 'b');
    let j = JValue::from(&v);
    let mut ids: Vec<(&str, String)> = vec![];
    match value_to_json_cid(&v) {
        Ok(c) => ids.push(("value_to_json_cid(serde_json value)", c.get_inner().to_string())),
        Err(e) => out.push(("C25/id-calculation-failed".into(), format!("{text}: {e}"))),
    }
    match value_to_json_cid(&j) {
        Ok(c) => ids.push(("value_to_json_cid(interpreter value)", c.get_inner().to_string())),
        Err(e) => out.push(("C25/id-calculation-failed".into(), format!("{text}: {e}"))),
    }
    ids.push(("raw_value_to_json_cid(canonical bytes)", raw_value_to_json_cid::<Value>(&bytes).get_inner().to_string()));
    // built differently: objects from pairs in reverse order, arrays through FromIterator, re-parsed from pretty text
    let rebuilt = rebuild_reversed(&v);
    if let Ok(c) = value_to_json_cid(&rebuilt) {
        ids.push(("value_to_json_cid(interpreter value built in reverse key order)", c.get_inner().to_string()));
    }
    if let Ok(p) = serde_json::from_str::<JValue>(&serde_json::to_string_pretty(&v).unwrap()) {
        if let Ok(c) = value_to_json_cid(&p) {
            ids.push(("value_to_json_cid(interpreter value parsed from pretty text)", c.get_inner().to_string()));
        }
    }
    for (how, id) in &ids {
        if *id != want {
            out.push(("C25/id-not-canonical".into(), format!("{how} of {text} is {id}, the canonical id is {want}")));
        }
    }
    out
}

fn rebuild_reversed(v: &Value) -> JValue {
    match v {
        Value::Array(a) => a.iter().map(rebuild_reversed).collect::<Vec<JValue>>().into_iter().collect(),
        Value::Object(o) => JValue::object_from_pairs(o.iter().rev().map(|(k, x)| (k.as_str(), rebuild_reversed(x)))),
        x => JValue::from(x),
    }
}

fn c25_mutation(text: &str, only: Option<&str>, observed: &mut BTreeMap<String, (u64, u64)>) -> Found {
    let mut out: Found = vec![];
    let Ok(v) = serde_json::from_str::<Value>(text) else {
        return vec![("C25/MACHINERY-case-text".into(), text.to_string())];
    };
    let bytes = serde_json::to_vec(&v).unwrap();
    let j = JValue::from(&v);
    for (name, id, want) in cid_mutations(&bytes) {
        if only.map(|o| o != name).unwrap_or(false) {
            continue;
        }
        let r1 = verify_value(&CID::<Value>::new(id.as_str()), &v);
        let r2 = verify_value(&CID::<JValue>::new(id.as_str()), &j);
        let r3 = verify_raw_value(&CID::<Value>::new(id.as_str()), &bytes);
        let e = observed.entry(name.clone()).or_insert((0, 0));
        for (what, r) in [("verify_value(serde_json value)", r1), ("verify_value(interpreter value)", r2), ("verify_raw_value", r3)] {
            if r.is_ok() {
                e.0 += 1;
            } else {
                e.1 += 1;
            }
            let err = r.as_ref().err().map(|x| x.to_string()).unwrap_or_default();
            judge(&name, what, r.is_ok(), err, want, text, &id, &mut out);
        }
    }
    out
}

// ---------------------------------------------------------------------------------------------
// drivers

fn to_violations(engine_case: Value, found: Found) -> Vec<Violation> {
    found
        .into_iter()
        .map(|(sig, d)| Violation { signature: sig, description: d, replay: json!({"engine": "e2", "case": engine_case}) })
        .collect()
}

fn e2_report(id: &str, tier: Tier) -> Report {
    let mut rep = Report::new(id, "exploration");
    rep.assumptions = vec![
        "serde_json (the reference JSON implementation) is trusted; sha2 and fluence-blake3 are trusted as hash functions".into(),
        "the universe is finite: leaves at the i64/u64/f64 boundaries, escaped and non-ASCII strings, arrays and objects up to depth 2-3".into(),
    ];
    rep.cov("exhaustive", json!(true));
    rep.cov("tier_universe", json!(if tier == Tier::Quick { "all leaves and depth-1 composites, every 5th depth-2 composite" } else { "all leaves, depth-1 and depth-2 composites" }));
    rep
}

pub fn check_c26(tier: Tier) -> Report {
    let uni = universe(tier);
    let mut rep = e2_report("C26", tier);
    let mut evals = 0u64;
    let mut nontrivial = 0u64;
    for v in &uni {
        let t = v.to_string();
        evals += 1;
        if value_nontrivial(v) {
            nontrivial += 1;
        }
        let f = c26_value(&t);
        rep.violations.extend(to_violations(json!({"property": "C26", "kind": "value", "text": t}), f));
    }
    // comparisons: all pairs over the leaves and a slice of the composites
    let stride = if tier == Tier::Quick { 9 } else { 3 };
    let pairs: Vec<String> = uni.iter().enumerate().filter(|(i, v)| !(v.is_array() || v.is_object()) || i % stride == 0).map(|(_, v)| v.to_string()).collect();
    let mut equal_pairs = 0u64;
    for a in &pairs {
        for b in &pairs {
            evals += 1;
            let f = c26_pair(a, b);
            if a != b && serde_json::from_str::<Value>(a).ok() == serde_json::from_str::<Value>(b).ok() {
                equal_pairs += 1;
            }
            rep.violations.extend(to_violations(json!({"property": "C26", "kind": "pair", "a": a, "b": b}), f));
        }
    }
    rep.cov("evaluations", json!(evals));
    rep.cov("distinct_nontrivial", json!(nontrivial));
    rep.cov("values", json!(uni.len()));
    rep.cov("pairs_compared", json!(pairs.len() * pairs.len()));
    rep.cov("pairs_equal_with_different_text", json!(equal_pairs));
    rep.cov("rule", json!("every value of the universe: conversion serde_json -> JValue -> serde_json, compact and pretty printing, parsing of both texts, kind predicates and as_* accessors, indexing and pointer navigation, all compared with serde_json; every ordered pair of a sub-universe: == agrees with serde_json; non-trivial = values holding a float, an integer beyond 2^53, a string needing escapes or non-ASCII, or nesting"));
    rep.cov("samples", json!(uni.iter().filter(|v| value_nontrivial(v)).step_by(uni.len() / 12 + 1).map(|v| v.to_string()).collect::<Vec<_>>()));
    rep
}

pub fn check_c25(tier: Tier) -> Report {
    let uni = universe(tier);
    let mut rep = e2_report("C25", tier);
    let mut evals = 0u64;
    let mut nontrivial = 0u64;
    let mut by_id: BTreeMap<String, String> = BTreeMap::new();
    for v in &uni {
        let t = v.to_string();
        evals += 1;
        let f = c25_value(&t);
        rep.violations.extend(to_violations(json!({"property": "C25", "kind": "value", "text": t}), f));
        if let Ok(c) = value_to_json_cid(v) {
            if let Some(prev) = by_id.insert(c.get_inner().to_string(), t.clone()) {
                rep.violations.push(Violation {
                    signature: "C25/two-values-one-id".into(),
                    description: format!("{prev} and {t} have the same id"),
                    replay: json!({"engine": "e2", "case": {"property": "C25", "kind": "value", "text": t}}),
                });
            }
        }
    }
    let stride = if tier == Tier::Quick { 4 } else { 1 };
    let mut observed: BTreeMap<String, (u64, u64)> = BTreeMap::new();
    let mut mutated_values = 0u64;
    let mut samples = vec![];
    for (i, v) in uni.iter().enumerate() {
        if (v.is_array() || v.is_object()) && i % stride != 0 {
            continue;
        }
        let t = v.to_string();
        mutated_values += 1;
        let n = cid_mutations(&serde_json::to_vec(v).unwrap());
        evals += 3 * n.len() as u64;
        nontrivial += n.iter().filter(|(_, _, w)| *w == Want::Reject).count() as u64;
        if samples.len() < 6 && i % 97 == 3 {
            samples.push(json!({"value": t, "ids": n.iter().take(4).chain(n.iter().skip(20).take(3)).map(|(a, b, _)| json!({"mutation": a, "id": b})).collect::<Vec<_>>()}));
        }
        let f = c25_mutation(&t, None, &mut observed);
        for (sig, d) in f {
            let name = sig.rsplit('/').next().unwrap_or("").to_string();
            rep.violations.push(Violation { signature: sig, description: d, replay: json!({"engine": "e2", "case": {"property": "C25", "kind": "cidmut", "text": t, "mutation": name}}) });
        }
    }
    if samples.is_empty() {
        samples.push(json!({"value": "null", "ids": cid_mutations(b"null").iter().take(5).map(|(a, b, _)| json!({"mutation": a, "id": b})).collect::<Vec<_>>()}));
    }
    // the accepting cases must have been accepted somewhere, otherwise the catalogue is vacuous
    let accepted_ok = observed.get("blake3").map(|x| x.0).unwrap_or(0) > 0 && observed.get("sha2-256").map(|x| x.0).unwrap_or(0) > 0;
    if !accepted_ok && rep.violations.is_empty() {
        rep.machinery_errors.push("vacuous: no matching id was ever accepted".into());
    }
    rep.cov("evaluations", json!(evals));
    rep.cov("distinct_nontrivial", json!(nontrivial));
    rep.cov("values", json!(uni.len()));
    rep.cov("values_with_id_mutations", json!(mutated_values));
    rep.cov("distinct_ids", json!(by_id.len()));
    rep.cov("accepted_rejected_per_mutation", json!(observed.iter().map(|(k, v)| (k.clone(), json!({"accepted": v.0, "rejected": v.1}))).collect::<BTreeMap<_, _>>()));
    rep.cov("rule", json!("every value: id computed from the serde_json value, from the interpreter value (also built in reverse key order and parsed from pretty text) and from the canonical bytes must all equal the reference framing b32(0x01, codec 0x0200, blake3-256, digest of serde_json's compact text); distinct values must get distinct ids; every (value, mutated id) of the catalogue through verify_value (both value types) and verify_raw_value: accepted iff version 1, codec 0x0200, hash code sha2-256 or blake3-256 and the full 32-byte digest of the canonical bytes; the same id written in another multibase is observed, not judged; non-trivial = (value, id) pairs that must be rejected"));
    rep.cov("samples", json!(samples));
    rep
}

/// Verdict of a replayed E2 case given two evaluations of it.
pub fn replay_verdict(v: &Value, a: Found, b: Found) -> i32 {
    let case = &v["case"];
    let want = v["signature"].as_str().unwrap_or("");
    let prop = case["property"].as_str().unwrap_or("");
    if a != b {
        println!("REPLAY-NONDETERMINISTIC");
        return 2;
    }
    println!("replayed case: {case}");
    match a.iter().find(|(s, _)| s == want) {
        Some((s, d)) => {
            println!("VIOLATION property={prop} replay={}", v["__path"].as_str().unwrap_or("<file>"));
            println!("reproduced: {s}: {d}");
            1
        }
        None => {
            println!("not reproduced (violations seen: {:?})", a.iter().map(|x| &x.0).collect::<Vec<_>>());
            0
        }
    }
}

/// `mc replay` for an E2 case: re-evaluates exactly the recorded case.
pub fn replay(v: &Value) -> i32 {
    let case = &v["case"];
    let want = v["signature"].as_str().unwrap_or("");
    let prop = case["property"].as_str().unwrap_or("");
    let text = case["text"].as_str().unwrap_or("");
    let run = || -> Found {
        match (prop, case["kind"].as_str().unwrap_or("")) {
            ("C26", "value") => c26_value(text),
            ("C26", "pair") => c26_pair(case["a"].as_str().unwrap_or(""), case["b"].as_str().unwrap_or("")),
            ("C25", "value") => c25_value(text),
            ("C25", "cidmut") => c25_mutation(text, case["mutation"].as_str(), &mut BTreeMap::new()),
            _ => vec![("MACHINERY/unknown-case".into(), case.to_string())],
        }
    };
    let (a, b) = (run(), run());
    if a != b {
        println!("REPLAY-NONDETERMINISTIC");
        return 2;
    }
    println!("replayed case: {case}");
    if want == "C25/two-values-one-id" {
        println!("not reproducible from one case: re-run the check");
        return 2;
    }
    match a.iter().find(|(s, _)| s == want) {
        Some((s, d)) => {
            println!("VIOLATION property={prop} replay={}", v["__path"].as_str().unwrap_or("<file>"));
            println!("reproduced: {s}: {d}");
            1
        }
        None => {
            println!("not reproduced (violations seen: {:?})", a.iter().map(|x| &x.0).collect::<Vec<_>>());
            0
        }
    }
}
