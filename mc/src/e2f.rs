//! Engine E2, text-level properties: C23 (the parser is total and accepts only well-scoped scripts) and
//! C28 (the beautifier renders the script structure faithfully). Both work on script *text*: an independent
//! S-expression reader gives the harness its own view of the script (instruction starts, operands), on
//! which ScopeCheck (C23) and the expected rendering (C28) are computed without using the parser's AST.

use crate::check::{Report, Tier};
use crate::e2b::{e2_report, to_violations, Found};
use crate::script::Script;

use serde_json::{json, Value};
use std::collections::{BTreeMap, BTreeSet};

// ---------------------------------------------------------------------------------------------
// error nodes in a parsed tree (through the AST's own Serialize)

fn walk_errors(v: &Value, parent_key: &str, n: &mut u64) {
    match v {
        Value::String(s) => {
            if s == "Error" && !matches!(parent_key, "Fail" | "Literal" | "name" | "function_name" | "service_id") {
                *n += 1;
            }
        }
        Value::Array(a) => {
            for x in a {
                walk_errors(x, parent_key, n);
            }
        }
        Value::Object(o) => {
            for (k, x) in o {
                walk_errors(x, k, n);
            }
        }
        _ => {}
    }
}

pub fn count_error_nodes(ast: &air_parser::ast::Instruction<'_>) -> u64 {
    let v = serde_json::to_value(ast).unwrap_or(Value::Null);
    let mut n = 0;
    walk_errors(&v, "", &mut n);
    n
}

// ---------------------------------------------------------------------------------------------
// S-expression reader

#[derive(Clone, Debug, PartialEq)]
pub enum Sx {
    /// (items...), byte offset of the opening parenthesis
    List(Vec<Sx>, usize),
    /// [items...]
    Vec(Vec<Sx>, usize),
    Atom(String, usize),
}

fn read_sx(b: &[u8], i: &mut usize) -> Option<Sx> {
    while *i < b.len() && (b[*i] as char).is_whitespace() {
        *i += 1;
    }
    if *i >= b.len() {
        return None;
    }
    let start = *i;
    match b[*i] {
        b'(' | b'[' => {
            let close = if b[*i] == b'(' { b')' } else { b']' };
            let is_list = b[*i] == b'(';
            *i += 1;
            let mut items = vec![];
            loop {
                while *i < b.len() && (b[*i] as char).is_whitespace() {
                    *i += 1;
                }
                if *i >= b.len() {
                    return None;
                }
                if b[*i] == close {
                    *i += 1;
                    break;
                }
                if b[*i] == b')' || b[*i] == b']' {
                    return None;
                }
                items.push(read_sx(b, i)?);
            }
            Some(if is_list { Sx::List(items, start) } else { Sx::Vec(items, start) })
        }
        b')' | b']' => None,
        b'"' => {
            *i += 1;
            while *i < b.len() && b[*i] != b'"' {
                *i += 1;
            }
            if *i >= b.len() {
                return None;
            }
            *i += 1;
            Some(Sx::Atom(String::from_utf8_lossy(&b[start..*i]).into_owned(), start))
        }
        _ => {
            while *i < b.len() && !(b[*i] as char).is_whitespace() && !matches!(b[*i], b'(' | b')' | b'[' | b']') {
                // `.[0]` accessors inside a lens contain brackets: they follow a dot
                *i += 1;
                if *i + 1 < b.len() && b[*i] == b'[' && b[*i - 1] == b'.' {
                    while *i < b.len() && b[*i] != b']' {
                        *i += 1;
                    }
                    if *i < b.len() {
                        *i += 1;
                    }
                }
            }
            Some(Sx::Atom(String::from_utf8_lossy(&b[start..*i]).into_owned(), start))
        }
    }
}

pub fn read_script(text: &str) -> Option<Sx> {
    let b = text.as_bytes();
    let mut i = 0;
    let s = read_sx(b, &mut i)?;
    while i < b.len() && (b[i] as char).is_whitespace() {
        i += 1;
    }
    if i != b.len() {
        return None;
    }
    Some(s)
}

// ---------------------------------------------------------------------------------------------
// ScopeCheck

/// name of the variable an operand token refers to (None for literals, numbers, keywords), plus the scalar
/// names used inside `.[name]` accessors of its lens
fn token_vars(t: &str) -> Vec<String> {
    let mut out = vec![];
    if t.starts_with('"') || ["%init_peer_id%", "%timestamp%", "%ttl%", "[]", "true", "false"].contains(&t) {
        return out;
    }
    if t.chars().next().map(|c| c.is_ascii_digit() || c == '-' || c == '+').unwrap_or(true) {
        return out;
    }
    // `#%c.$.a` / `x.$.[k]` / `:error:.$.message`: head up to the first ".$" or ".length"
    let cut = t.find(".$").or_else(|| t.find(".length")).unwrap_or(t.len());
    let (head, lens) = (&t[..cut], &t[cut..]);
    if !(head.starts_with(":error:") || head.starts_with("%last_error%")) {
        out.push(head.to_string());
    }
    let mut rest = lens;
    while let Some(p) = rest.find(".[") {
        let after = &rest[p + 2..];
        match after.find(']') {
            Some(q) => {
                let inner = &after[..q];
                if !inner.is_empty() && !inner.chars().all(|c| c.is_ascii_digit()) {
                    out.push(inner.to_string());
                }
                rest = &after[q..];
            }
            None => break,
        }
    }
    out
}

fn is_stream_name(n: &str) -> bool {
    n.starts_with('$') || n.starts_with('%')
}

#[derive(Default)]
struct Scope {
    /// (name, start offset of the defining instruction)
    defs: Vec<(String, usize)>,
    /// (name, start offset of the using instruction, names of enclosing fold iterators)
    uses: Vec<(String, usize, Vec<String>)>,
    /// (iterator, offset, enclosing iterators)
    nexts: Vec<(String, usize, Vec<String>)>,
    malformed: bool,
}

fn atom(s: &Sx) -> Option<&str> {
    match s {
        Sx::Atom(a, _) => Some(a.as_str()),
        _ => None,
    }
}

fn collect(s: &Sx, iters: &Vec<String>, sc: &mut Scope) {
    let Sx::List(items, start) = s else {
        sc.malformed = true;
        return;
    };
    let kw = items.first().and_then(atom).unwrap_or("");
    let use_tok = |t: &Sx, sc: &mut Scope| match t {
        Sx::Atom(a, _) => {
            for v in token_vars(a) {
                sc.uses.push((v, *start, iters.clone()));
            }
        }
        Sx::Vec(v, _) if v.is_empty() => {}
        _ => sc.malformed = true,
    };
    match kw {
        "seq" | "par" | "xor" => {
            if items.len() != 3 {
                sc.malformed = true;
                return;
            }
            collect(&items[1], iters, sc);
            collect(&items[2], iters, sc);
        }
        "call" => {
            // (call peer (svc fn) [args] out?)
            if items.len() < 4 {
                sc.malformed = true;
                return;
            }
            use_tok(&items[1], sc);
            if let Sx::List(tr, _) = &items[2] {
                for t in tr {
                    use_tok(t, sc);
                }
            } else {
                sc.malformed = true;
            }
            if let Sx::Vec(args, _) = &items[3] {
                for a in args {
                    use_tok(a, sc);
                }
            } else {
                sc.malformed = true;
            }
            if let Some(o) = items.get(4).and_then(atom) {
                sc.defs.push((o.to_string(), *start));
            }
        }
        "ap" => {
            if items.len() != 3 {
                sc.malformed = true;
                return;
            }
            match &items[1] {
                Sx::List(kv, _) => {
                    for t in kv {
                        use_tok(t, sc);
                    }
                }
                t => use_tok(t, sc),
            }
            if let Some(o) = atom(&items[2]) {
                sc.defs.push((o.to_string(), *start));
            }
        }
        "canon" => {
            if items.len() != 4 {
                sc.malformed = true;
                return;
            }
            use_tok(&items[1], sc);
            // the source stream need not be defined (an undefined stream is an empty stream)
            if let Some(o) = atom(&items[3]) {
                sc.defs.push((o.to_string(), *start));
            }
        }
        "match" | "mismatch" => {
            if items.len() != 4 {
                sc.malformed = true;
                return;
            }
            use_tok(&items[1], sc);
            use_tok(&items[2], sc);
            collect(&items[3], iters, sc);
        }
        "fail" => {
            for t in &items[1..] {
                use_tok(t, sc);
            }
        }
        "new" => {
            if items.len() != 3 {
                sc.malformed = true;
                return;
            }
            if let Some(v) = atom(&items[1]) {
                sc.defs.push((v.to_string(), *start));
            }
            collect(&items[2], iters, sc);
        }
        "fold" => {
            if items.len() != 4 && items.len() != 5 {
                sc.malformed = true;
                return;
            }
            use_tok(&items[1], sc);
            let it = atom(&items[2]).unwrap_or("").to_string();
            let mut inner = iters.clone();
            inner.push(it);
            collect(&items[3], &inner, sc);
            if let Some(last) = items.get(4) {
                collect(last, &inner, sc);
            }
        }
        "next" => {
            if let Some(i) = items.get(1).and_then(atom) {
                sc.nexts.push((i.to_string(), *start, iters.clone()));
            } else {
                sc.malformed = true;
            }
        }
        "null" | "never" => {}
        _ => sc.malformed = true,
    }
}

/// Ok(()) if every scalar / canon-stream use is defined by an instruction that starts earlier in the text or is
/// an enclosing fold iterator, and every `next` names an enclosing fold iterator. Err(reason) otherwise.
pub fn scope_check(text: &str) -> Result<(), String> {
    let Some(sx) = read_script(text) else { return Err("unreadable".into()) };
    let mut sc = Scope::default();
    collect(&sx, &vec![], &mut sc);
    if sc.malformed {
        return Err("malformed".into());
    }
    for (name, at, iters) in &sc.uses {
        if is_stream_name(name) {
            continue;
        }
        let defined_earlier = sc.defs.iter().any(|(d, p)| d == name && p < at);
        let enclosing_iter = iters.contains(name);
        if !defined_earlier && !enclosing_iter {
            return Err(format!("`{name}` used by the instruction at offset {at} is neither defined earlier nor an enclosing fold iterator"));
        }
    }
    for (it, at, iters) in &sc.nexts {
        if !iters.contains(it) {
            return Err(format!("`next {it}` at offset {at} is not inside a fold over `{it}`"));
        }
    }
    Ok(())
}

// ---------------------------------------------------------------------------------------------
// C23

pub fn c23_text(text: &str) -> Found {
    c23_text2(text).0
}

/// The same judgement with the parse done in a worker process (each process has its own stderr lock: the
/// parser prints its diagnostics there, which serializes threads of one process).
pub fn c23_text_w(w: &mut crate::worker::Worker, text: &str) -> (Found, bool) {
    use crate::worker::Answer;
    let mut out: Found = vec![];
    match w.ask(&json!({"op": "parse", "text": text})) {
        Answer::Panic(p) => {
            out.push(("C23/parser-panics".into(), format!("{text:?}: {p}")));
            (out, false)
        }
        Answer::Died(d) => {
            out.push(("C23/parser-kills-the-process".into(), format!("{text:?}: {d}")));
            (out, false)
        }
        Answer::Ok(o) => {
            let parsed = o["parsed"].as_bool() == Some(true);
            if parsed {
                let n = o["error_nodes"].as_u64().unwrap_or(0);
                if n > 0 {
                    out.push(("C23/accepted-tree-contains-error-nodes".into(), format!("{text:?}: {n} error nodes")));
                }
                out.extend(scope_verdict(text));
            }
            (out, parsed)
        }
    }
}

/// `next x` outside a fold over `x`: either the script folds with `x` somewhere else (the listed known finding is about
/// that), or `x` is no fold iterator at all in the script (e.g. a scalar defined earlier).
fn next_class(text: &str, why: &str) -> String {
    let name = why.split('`').nth(1).and_then(|t| t.strip_prefix("next ")).unwrap_or("");
    let folds_with_it = text.match_indices("(fold ").any(|(i, _)| text[i + 6..].split_whitespace().nth(1) == Some(name));
    if folds_with_it {
        "next-outside-its-fold".into()
    } else {
        "next-on-a-name-that-is-no-fold-iterator".into()
    }
}

fn scope_verdict(text: &str) -> Found {
    let mut out: Found = vec![];
    if let Err(why) = scope_check(text) {
        if why != "unreadable" && why != "malformed" {
            let class: String = if why.contains("next") { next_class(text, &why) } else if why.contains("neither") { classify_scope(text) } else { "other".into() };
            out.push((format!("C23/accepted-script-is-not-well-scoped/{class}"), format!("{text}: {why}")));
        }
    }
    out
}

/// (violations, did the parser accept the text)
pub fn c23_text2(text: &str) -> (Found, bool) {
    let mut out: Found = vec![];
    let mut parsed = false;
    let r = std::panic::catch_unwind(|| match air_parser::parse(text) {
        Ok(ast) => (true, count_error_nodes(&ast)),
        Err(_) => (false, 0),
    });
    match r {
        Err(_) => out.push(("C23/parser-panics".into(), format!("{text:?}: {}", crate::host::take_last_panic().unwrap_or_default()))),
        Ok((true, n)) => {
            parsed = true;
            if n > 0 {
                out.push(("C23/accepted-tree-contains-error-nodes".into(), format!("{text:?}: {n} error nodes")));
            }
            if let Err(why) = scope_check(text) {
                if why != "unreadable" && why != "malformed" {
                    let class: String = if why.contains("next") { next_class(text, &why) } else if why.contains("neither") { classify_scope(text) } else { "other".into() };
                    out.push((format!("C23/accepted-script-is-not-well-scoped/{class}"), format!("{text}: {why}")));
                }
            }
        }
        Ok((false, _)) => {}
    }
    (out, parsed)
}

/// finer class of a scoping violation: is the offending name a fold iterator used outside its fold, and
/// which instruction uses it?
fn classify_scope(text: &str) -> String {
    let Some(sx) = read_script(text) else { return "undefined-variable".into() };
    let mut sc = Scope::default();
    collect(&sx, &vec![], &mut sc);
    let mut iter_names = BTreeSet::new();
    fn iters(s: &Sx, out: &mut BTreeSet<String>) {
        if let Sx::List(items, _) = s {
            if items.first().and_then(atom) == Some("fold") {
                if let Some(i) = items.get(2).and_then(atom) {
                    out.insert(i.to_string());
                }
            }
            for x in items {
                iters(x, out);
            }
        }
    }
    iters(&sx, &mut iter_names);
    fn keyword_at(s: &Sx, at: usize) -> Option<String> {
        if let Sx::List(items, p) = s {
            if *p == at {
                return items.first().and_then(atom).map(|k| k.to_string());
            }
            for x in items {
                if let Some(k) = keyword_at(x, at) {
                    return Some(k);
                }
            }
        }
        None
    }
    for (name, at, its) in &sc.uses {
        if is_stream_name(name) {
            continue;
        }
        if !sc.defs.iter().any(|(d, p)| d == name && p < at) && !its.contains(name) {
            let kw = keyword_at(&sx, *at).unwrap_or_default();
            let what = if iter_names.contains(name) { "fold-iterator-used-outside-its-fold" } else { "undefined-variable" };
            return format!("{what}/in-{kw}");
        }
    }
    "undefined-variable".into()
}

/// single scope mutations of a script text: (name, mutated text)
fn scope_mutations(text: &str) -> Vec<(String, String)> {
    let mut out = vec![];
    let Some(sx) = read_script(text) else { return out };
    // collect atoms that are variable uses / definitions with their offsets
    let mut sc = Scope::default();
    collect(&sx, &vec![], &mut sc);
    let names: BTreeSet<String> = sc.uses.iter().map(|u| u.0.clone()).filter(|n| !is_stream_name(n)).collect();
    // 1. rename every occurrence of one used name in one using instruction to an undefined name
    let mut k = 0;
    for (name, at, _) in &sc.uses {
        if is_stream_name(name) {
            continue;
        }
        // replace the first occurrence of the token after `at`
        if let Some(p) = find_token(text, *at, name) {
            let mut t = text.to_string();
            t.replace_range(p..p + name.len(), "undefinedvar");
            out.push((format!("rename-use-{k}"), t));
            k += 1;
        }
    }
    // 2. for each fold: use its iterator after the fold, before the fold, and in a sibling par branch
    fn folds(s: &Sx, out: &mut Vec<(usize, String)>) {
        if let Sx::List(items, at) = s {
            if items.first().and_then(atom) == Some("fold") {
                if let Some(i) = items.get(2).and_then(atom) {
                    out.push((*at, i.to_string()));
                }
            }
            for x in items {
                folds(x, out);
            }
        }
    }
    let mut fs = vec![];
    folds(&sx, &mut fs);
    for (j, (at, it)) in fs.iter().enumerate() {
        let end = matching_close(text, *at);
        let fold_text = &text[*at..end];
        let user = format!(r#"(call %init_peer_id% ("s" "use") [{it}])"#);
        let mut t = text.to_string();
        t.replace_range(*at..end, &format!("(seq {fold_text} {user})"));
        out.push((format!("iterator-after-fold-{j}"), t));
        let mut t = text.to_string();
        t.replace_range(*at..end, &format!("(seq {user} {fold_text})"));
        out.push((format!("iterator-before-fold-{j}"), t));
        let mut t = text.to_string();
        t.replace_range(*at..end, &format!("(par {fold_text} {user})"));
        out.push((format!("iterator-in-sibling-par-branch-{j}"), t));
        let mut t = text.to_string();
        t.replace_range(*at..end, &format!("(seq {fold_text} (next {it}))"));
        out.push((format!("next-after-fold-{j}"), t));
        let mut t = text.to_string();
        t.replace_range(*at..end, &format!("(seq {fold_text} (fold {it} other (next other)))"));
        out.push((format!("iterator-as-iterable-after-fold-{j}"), t));
        let mut t = text.to_string();
        t.replace_range(*at..end, &format!("(seq {fold_text} (match {it} 1 (null)))"));
        out.push((format!("iterator-in-match-after-fold-{j}"), t));
        let mut t = text.to_string();
        t.replace_range(*at..end, &format!("(seq {fold_text} (ap {it} escaped))"));
        out.push((format!("iterator-in-ap-after-fold-{j}"), t));
    }
    // 3. a next for an iterator that does not exist, at top level
    out.push(("next-without-fold".into(), format!("(seq {text} (next nofold))")));
    // 3b. a next on a name that an earlier call defined as a scalar (no fold has it as iterator)
    if let Some(i) = text.find("(call ") {
        let end = matching_close(text, i);
        let call_text = &text[i..end];
        if let Some(out_name) = call_text.trim_end_matches(')').rsplit(']').next().map(|t| t.trim()).filter(|t| !t.is_empty() && t.chars().all(|c| c.is_ascii_alphanumeric() || c == '_')) {
            out.push(("next-on-an-earlier-scalar".into(), format!("(seq {text} (next {out_name}))")));
        }
    }
    // 4. swap the two branches of each seq (moves uses before definitions)
    fn seqs(s: &Sx, out: &mut Vec<usize>) {
        if let Sx::List(items, at) = s {
            if items.first().and_then(atom) == Some("seq") && items.len() == 3 {
                out.push(*at);
            }
            for x in items {
                seqs(x, out);
            }
        }
    }
    let mut ss = vec![];
    seqs(&sx, &mut ss);
    for (j, at) in ss.iter().enumerate() {
        let end = matching_close(text, *at);
        // children
        let inner_start = at + "(seq ".len();
        let a_end = matching_close(text, inner_start);
        let a = &text[inner_start..a_end];
        let b = text[a_end..end - 1].trim();
        let mut t = text.to_string();
        t.replace_range(*at..end, &format!("(seq {b} {a})"));
        out.push((format!("swap-seq-{j}"), t));
    }
    let _ = names;
    out
}

fn find_token(text: &str, from: usize, name: &str) -> Option<usize> {
    let b = text.as_bytes();
    let mut i = from;
    while let Some(p) = text[i..].find(name) {
        let s = i + p;
        let e = s + name.len();
        let before_ok = s == 0 || matches!(b[s - 1], b' ' | b'[' | b'(');
        let after_ok = e >= b.len() || matches!(b[e], b' ' | b']' | b')' | b'.');
        if before_ok && after_ok {
            return Some(s);
        }
        i = e;
    }
    None
}

/// index just after the parenthesis closing the list that opens at `at`
fn matching_close(text: &str, at: usize) -> usize {
    let b = text.as_bytes();
    let mut depth = 0i32;
    let mut i = at;
    let mut in_str = false;
    while i < b.len() {
        match b[i] {
            b'"' => in_str = !in_str,
            b'(' if !in_str => depth += 1,
            b')' if !in_str => {
                depth -= 1;
                if depth == 0 {
                    return i + 1;
                }
            }
            _ => {}
        }
        i += 1;
    }
    b.len()
}

const TOKENS: [&str; 26] = ["(", ")", "[", "]", "call", "seq", "par", "xor", "fold", "next", "new", "ap", "canon", "match", "mismatch", "fail", "null", "never", "\"a\"", "x", "$s", "#c", "%m", "#%c", "1", "x.$.a"];

fn token_strings(len: usize) -> impl Iterator<Item = String> {
    let n = TOKENS.len();
    let total = n.pow(len as u32);
    (0..total).map(move |mut k| {
        let mut parts = Vec::with_capacity(len);
        for _ in 0..len {
            parts.push(TOKENS[k % n]);
            k /= n;
        }
        parts.join(" ")
    })
}

fn base_scripts(tier: Tier) -> Vec<(String, String)> {
    let mut v: Vec<Script> = vec![];
    let lvl = if tier == Tier::Quick { 0 } else { 1 };
    v.extend(crate::families::seq_family(3, lvl));
    v.extend(crate::families::stream_family(lvl));
    v.extend(crate::families::map_family(lvl));
    v.extend(crate::families::err_family(lvl));
    v.extend(crate::families::err_nofail_family());
    // scripts the parser rejects are dropped (some generated leaf replacements leave a variable undefined)
    v.into_iter()
        .map(|s| {
            let w = crate::netmc::World::new(&s, &[], "p");
            (s.name.clone(), w.part.script.clone())
        })
        .filter(|(_, t)| air_parser::parse(t).is_ok())
        .collect()
}

fn par_map<T: Sync, R: Send>(items: &[T], f: impl Fn(&T) -> R + Sync) -> Vec<R> {
    let n = std::thread::available_parallelism().map(|x| x.get()).unwrap_or(8);
    let next = std::sync::atomic::AtomicUsize::new(0);
    let out: std::sync::Mutex<Vec<(usize, R)>> = std::sync::Mutex::new(vec![]);
    std::thread::scope(|sc| {
        for _ in 0..n {
            sc.spawn(|| {
                crate::host::install_panic_hook();
                let mut local = vec![];
                loop {
                    let i = next.fetch_add(64, std::sync::atomic::Ordering::SeqCst);
                    if i >= items.len() {
                        break;
                    }
                    for j in i..(i + 64).min(items.len()) {
                        local.push((j, f(&items[j])));
                    }
                }
                out.lock().unwrap().extend(local);
            });
        }
    });
    let mut v = out.into_inner().unwrap();
    v.sort_by_key(|x| x.0);
    v.into_iter().map(|x| x.1).collect()
}

pub fn check_c23(tier: Tier) -> Report {
    let mut rep = e2_report(
        "C23",
        &[
            "ScopeCheck works on the script text through the harness's own S-expression reader: a use is in scope iff an instruction defining that name (call/ap/canon output, new) starts earlier in the text or the use is inside a fold whose iterator has that name; next needs an enclosing fold with that iterator",
            "stream and stream-map names are not judged (an undefined stream is an empty stream by design)",
            "only Ok => well-scoped is demanded; the parser may reject for further reasons",
        ],
    );
    let mut evals = 0u64;
    let mut counts: BTreeMap<String, u64> = BTreeMap::new();
    // (a) totality over token strings
    let maxlen = if tier == Tier::Quick { 4 } else { 5 };
    let mut accepted_tokens = 0u64;
    for len in 1..=maxlen {
        // quick: all strings up to length 3, length 4 only if they open a parenthesis; thorough: all up to
        // length 4, length 5 only if they start with "( <instruction keyword>"
        let kw_start = |t: &str| ["call", "seq", "par", "xor", "fold", "next", "new", "ap", "canon", "match", "mismatch", "fail", "null", "never"].iter().any(|k| t.starts_with(&format!("( {k} ")));
        let all: Vec<String> = token_strings(len).filter(|t| if tier == Tier::Thorough { len <= 4 || kw_start(t) } else { len <= 3 || t.starts_with('(') }).collect();
        let (res, _) = crate::c01::par_workers(&all, |w, t| c23_text_w(w, t));
        for (t, (f, ok)) in all.iter().zip(res) {
            evals += 1;
            if ok {
                accepted_tokens += 1;
            }
            if !f.is_empty() {
                rep.violations.extend(to_violations(&json!({"property": "C23", "kind": "text", "text": t}), f));
            }
        }
        *counts.entry(format!("token-strings-length-{len}")).or_insert(0) += all.len() as u64;
    }
    // (b) generated scripts and their scope mutations
    let bases = base_scripts(tier);
    let mut texts: Vec<(String, String)> = vec![];
    for (name, t) in &bases {
        texts.push((format!("{name}#base"), t.clone()));
    }
    let stride = if tier == Tier::Quick { 7 } else { 1 };
    for (i, (name, t)) in bases.iter().enumerate() {
        if i % stride != 0 && !name.contains("fold") {
            continue;
        }
        for (m, mt) in scope_mutations(t) {
            texts.push((format!("{name}#{m}"), mt));
        }
    }
    let (res, _) = crate::c01::par_workers(&texts, |w, (_, t)| {
        let (f, parsed) = c23_text_w(w, t);
        let scoped = scope_check(t).is_ok();
        (f, parsed, scoped)
    });
    let mut base_rejected = vec![];
    let mut nontrivial = 0u64;
    let mut agree_reject = 0u64;
    let mut parser_stricter = 0u64;
    let mut samples = vec![];
    for ((name, t), (f, parsed, scoped)) in texts.iter().zip(res) {
        evals += 1;
        let kind = name.rsplit('#').next().unwrap_or("");
        let kind = kind.trim_end_matches(|c: char| c.is_ascii_digit() || c == '-');
        *counts.entry(format!("scripts-{kind}")).or_insert(0) += 1;
        if name.ends_with("#base") && !parsed {
            base_rejected.push(name.clone());
        }
        if !scoped {
            nontrivial += 1;
            if !parsed {
                agree_reject += 1;
            }
        } else if !parsed {
            parser_stricter += 1;
        }
        if samples.len() < 8 && !scoped && evals % 97 == 0 {
            samples.push(json!({"name": name, "text": t, "parser_accepts": parsed, "scope_check_accepts": scoped}));
        }
        if !f.is_empty() {
            rep.violations.extend(to_violations(&json!({"property": "C23", "kind": "text", "text": t, "name": name}), f));
        }
    }
    if !base_rejected.is_empty() {
        rep.machinery_errors.push(format!("{} generated base scripts are rejected by the parser, e.g. {}", base_rejected.len(), base_rejected[0]));
    }
    if samples.is_empty() {
        samples.push(json!({"text": texts.first().map(|t| t.1.clone())}));
    }
    rep.cov("evaluations", json!(evals));
    rep.cov("distinct_nontrivial", json!(nontrivial));
    rep.cov("cases_by_kind", json!(counts));
    rep.cov("token_strings_accepted_by_the_parser", json!(accepted_tokens));
    rep.cov("ill_scoped_texts_rejected_by_the_parser", json!(agree_reject));
    rep.cov("well_scoped_texts_rejected_by_the_parser_for_other_reasons", json!(parser_stricter));
    rep.cov("rule", json!(format!("totality: every string of 1..{maxlen} tokens (quick tier: length 4 only for strings that begin with an opening parenthesis; thorough tier: length 5 only for strings that begin with an opening parenthesis and an instruction keyword) over the 26-token alphabet {:?} is parsed; the parser must return Err or an Ok tree without error nodes (tree walked through its own Serialize form) and never panic; scoping: every generated script of SEQ_3, STREAM, MAP, ERR and, for each (quick: every 7th and every script with a fold), every single scope mutation (one use renamed to an undefined name; a fold iterator used after / before its fold, in a sibling par branch, as iterable / match operand / ap source after the fold; next after its fold; next without fold; the two branches of a seq swapped): parse Ok must imply ScopeCheck accepts; non-trivial = texts ScopeCheck rejects", TOKENS)));
    rep.cov("samples", json!(samples));
    rep
}

// ---------------------------------------------------------------------------------------------
// C28: expected rendering computed from the text through the S-expression reader

fn operand_text(s: &Sx) -> String {
    match s {
        Sx::Atom(a, _) => a.clone(),
        Sx::Vec(v, _) => format!("[{}]", v.iter().map(operand_text).collect::<Vec<_>>().join(" ")),
        Sx::List(v, _) => format!("({})", v.iter().map(operand_text).collect::<Vec<_>>().join(" ")),
    }
}

/// (depth, line text) of the expected beautified form
fn expected_lines(s: &Sx, depth: usize, out: &mut Vec<(usize, String)>) -> Result<(), String> {
    let Sx::List(items, _) = s else { return Err("not a list".into()) };
    let kw = items.first().and_then(atom).unwrap_or("");
    let ops = |r: std::ops::Range<usize>| items[r].iter().map(operand_text).collect::<Vec<_>>().join(" ");
    match kw {
        "seq" => {
            expected_lines(&items[1], depth, out)?;
            expected_lines(&items[2], depth, out)?;
        }
        "par" => {
            out.push((depth, "par:".into()));
            expected_lines(&items[1], depth + 1, out)?;
            out.push((depth, "|".into()));
            expected_lines(&items[2], depth + 1, out)?;
        }
        "xor" => {
            out.push((depth, "try:".into()));
            expected_lines(&items[1], depth + 1, out)?;
            out.push((depth, "catch:".into()));
            expected_lines(&items[2], depth + 1, out)?;
        }
        "call" => {
            let Sx::List(tr, _) = &items[2] else { return Err("triplet".into()) };
            let Sx::Vec(args, _) = &items[3] else { return Err("args".into()) };
            let mut line = String::new();
            if let Some(o) = items.get(4) {
                line.push_str(&format!("{} <- ", operand_text(o)));
            }
            line.push_str(&format!("call {} ({}, {}) [{}]", operand_text(&items[1]), operand_text(&tr[0]), operand_text(&tr[1]), args.iter().map(operand_text).collect::<Vec<_>>().join(", ")));
            out.push((depth, line));
        }
        "ap" | "canon" | "fail" | "next" => out.push((depth, format!("{kw} {}", ops(1..items.len())))),
        "null" | "never" => out.push((depth, kw.to_string())),
        "match" | "mismatch" => {
            out.push((depth, format!("{kw} {}:", ops(1..3))));
            expected_lines(&items[3], depth + 1, out)?;
        }
        "new" => {
            out.push((depth, format!("new {}:", ops(1..2))));
            expected_lines(&items[2], depth + 1, out)?;
        }
        "fold" => {
            out.push((depth, format!("fold {}:", ops(1..3))));
            expected_lines(&items[3], depth + 1, out)?;
            if let Some(last) = items.get(4) {
                out.push((depth, "last:".into()));
                expected_lines(last, depth + 1, out)?;
            }
        }
        other => return Err(format!("unknown keyword {other}")),
    }
    Ok(())
}

pub fn c28_case(text: &str, step: usize) -> Found {
    let mut out: Found = vec![];
    let Some(sx) = read_script(text) else { return vec![("MACHINERY/unreadable-script".into(), text.into())] };
    let mut want = vec![];
    if let Err(e) = expected_lines(&sx, 0, &mut want) {
        return vec![("MACHINERY/expected-rendering".into(), format!("{e}: {text}"))];
    }
    let mut buf: Vec<u8> = vec![];
    let r = {
        let mut b = air_beautifier::Beautifier::new_with_indent(&mut buf, step);
        b.beautify(text)
    };
    if let Err(e) = r {
        return vec![("C28/accepted-script-not-beautified".into(), format!("{text}: {e}"))];
    }
    let got_text = String::from_utf8_lossy(&buf).into_owned();
    let mut got = vec![];
    for line in got_text.lines() {
        let ind = line.len() - line.trim_start_matches(' ').len();
        if step > 0 && ind % step != 0 {
            out.push(("C28/indentation-not-a-multiple-of-the-step".into(), format!("step {step}: {line:?} in\n{got_text}")));
            return out;
        }
        got.push((if step > 0 { ind / step } else { 0 }, line.trim_start_matches(' ').to_string()));
    }
    if got.len() != want.len() {
        out.push(("C28/instructions-missing-or-added".into(), format!("script {text}\nexpected {} lines, got {}:\n{got_text}", want.len(), got.len())));
        return out;
    }
    for (k, (g, w)) in got.iter().zip(want.iter()).enumerate() {
        if g.1 != w.1 {
            out.push(("C28/line-text-differs".into(), format!("script {text}\nline {k}: expected {:?}, got {:?}", w.1, g.1)));
            break;
        }
        if g.0 != w.0 {
            out.push(("C28/wrong-indentation-depth".into(), format!("script {text}\nstep {step}, line {k} {:?}: expected depth {}, got {}\n{got_text}", w.1, w.0, g.0)));
            break;
        }
    }
    out
}

fn has_fold_with_last(text: &str) -> bool {
    fn go(s: &Sx) -> bool {
        if let Sx::List(items, _) = s {
            if items.first().and_then(atom) == Some("fold") && items.len() == 5 {
                return true;
            }
            return items.iter().any(go);
        }
        false
    }
    read_script(text).map(|s| go(&s)).unwrap_or(false)
}

pub fn check_c28(tier: Tier) -> Report {
    let mut rep = e2_report(
        "C28",
        &[
            "the expected rendering is computed from the script text by the harness's own S-expression reader: one line per non-seq instruction in textual order, depth = number of enclosing par/xor/match/mismatch/new/fold nodes, heads par:/|, try:/catch:, match L R:, new V:, fold I i:, last:, operands as written (call arguments comma-separated, triplet as (svc, fn), output as `out <- `)",
            "patterns (hopon) off",
        ],
    );
    let mut bases = base_scripts(tier);
    // every script with a fold that has a last instruction, again at nesting depth >= 1 (inside new / try / par /
    // match blocks): a block-local indentation slip shows only there
    let wrapped: Vec<(String, String)> = bases
        .iter()
        .filter(|(_, t)| has_fold_with_last(t))
        .flat_map(|(n, t)| {
            vec![
                (format!("{n}#in-new"), format!("(new $wrapz {t})")),
                (format!("{n}#in-try"), format!("(xor {t} (null))")),
                (format!("{n}#in-par-in-match"), format!("(match 1 1 (par (null) {t}))")),
            ]
        })
        .filter(|(_, t)| air_parser::parse(t).is_ok())
        .collect();
    bases.extend(wrapped);
    let steps: Vec<usize> = vec![1, 2, 4, 7];
    let mut cases: Vec<(String, String, usize)> = vec![];
    for (i, (name, t)) in bases.iter().enumerate() {
        for (j, s) in steps.iter().enumerate() {
            if tier == Tier::Quick && j > 0 && i % 5 != j {
                continue;
            }
            cases.push((name.clone(), t.clone(), *s));
        }
    }
    let res = par_map(&cases, |(_, t, s)| {
        let r = std::panic::catch_unwind(|| c28_case(t, *s));
        r.unwrap_or_else(|_| vec![("C28/beautifier-panics".into(), crate::host::take_last_panic().unwrap_or_default())])
    });
    let mut nontrivial = 0u64;
    let mut maxdepth = 0usize;
    let mut seen = BTreeSet::new();
    for ((name, t, s), f) in cases.iter().zip(res) {
        // non-trivial: distinct scripts with nesting depth >= 2
        if let Some(sx) = read_script(t) {
            let mut w = vec![];
            let _ = expected_lines(&sx, 0, &mut w);
            let d = w.iter().map(|x| x.0).max().unwrap_or(0);
            maxdepth = maxdepth.max(d);
            if d >= 2 && seen.insert(t.clone()) {
                nontrivial += 1;
            }
        }
        if !f.is_empty() {
            rep.violations.extend(to_violations(&json!({"property": "C28", "text": t, "step": s, "name": name}), f));
        }
    }
    rep.cov("evaluations", json!(cases.len()));
    rep.cov("distinct_nontrivial", json!(nontrivial));
    rep.cov("scripts", json!(bases.len()));
    rep.cov("indent_steps", json!(steps));
    rep.cov("max_nesting_depth", json!(maxdepth));
    rep.cov("rule", json!("every generated script of SEQ_3, STREAM, MAP, ERR (all accepted by the parser) beautified with indent steps 1, 2, 4, 7 (quick: step 1 for all, the others for every 5th); the output is read back line by line (indent / step, text) and compared with the expected rendering; non-trivial = distinct scripts with nesting depth >= 2"));
    rep.cov("samples", json!(cases.iter().step_by(cases.len() / 5 + 1).map(|(n, t, s)| json!({"name": n, "step": s, "script": t})).collect::<Vec<_>>()));
    rep
}

pub fn replay_case(case: &Value) -> Option<Found> {
    match case["property"].as_str().unwrap_or("") {
        "C23" => Some(c23_text(case["text"].as_str().unwrap_or(""))),
        "C28" => Some(c28_case(case["text"].as_str().unwrap_or(""), case["step"].as_u64().unwrap_or(4) as usize)),
        _ => None,
    }
}
