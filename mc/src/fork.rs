//! C15: a peer cannot present two incompatible versions of its own results.
//! Forks are pairs of data taken from *different branches* of one explored schedule graph: the equivocating
//! peer M answers its pending requests in different orders/groupings on different branches, signs each
//! result set, and so produces correctly signed sets that are not nested. Every (previous data of the victim,
//! any data of the graph) pair is merged by the real interpreter and judged against multiset arithmetic done
//! by the harness.

use crate::check::{Report, Tier, Violation};
use crate::data::Dec;
use crate::host::{self, RawResults};
use crate::mon_local::codes;
use crate::netmc::{self, BlobId, Cfg, Monitor, World};
use crate::script::*;

use serde_json::{json, Value};
use std::collections::{BTreeMap, BTreeSet};
use std::rc::Rc;

struct Noop;
impl Monitor for Noop {}

pub fn fork_scripts() -> Vec<Script> {
    let peers: Vec<String> = vec!["A".into(), "M".into(), "B".into()];
    let mk = |n: &str, ast: I| Script { family: "FORK".into(), name: format!("FORK/{n}"), ast, peers: peers.clone() };
    let done = |args: Vec<Arg>| call("A", "done", args, Out::None);
    vec![
        // the same call twice (identical content ids) next to two different ones: {f,f} vs {f,g,h}
        mk("repeated-result", seq(par(par(call("M", "f", vec![], sc("a")), call("M", "f", vec![], sc("b"))), par(call("M", "g", vec![], sc("c")), call("M", "h", vec![], sc("d")))), done(vec![]))),
        mk("two-peers", seq(par(call("M", "f", vec![], sc("a")), par(call("M", "g", vec![], sc("b")), call("B", "k", vec![], sc("c")))), done(vec![]))),
        mk("stream-writers", seq(par(call("M", "w", vec![], st("$s")), par(call("M", "w", vec![], st("$s")), call("M", "v", vec![], st("$s")))), seq(canon("A", "$s", "#cs"), done(vec![Arg::Canon("#cs".into())])))),
        mk("canon-by-equivocator", seq(par(call("B", "w1", vec![], st("$s")), par(call("M", "w2", vec![], st("$s")), call("M", "w3", vec![], st("$s")))), seq(canon("M", "$s", "#cs"), done(vec![Arg::Canon("#cs".into())])))),
        mk("failed-and-unused", seq(par(xor(call("M", "fail1", vec![], Out::None), I::Null), par(call("M", "u", vec![], Out::None), call("M", "f", vec![], sc("a")))), done(vec![]))),
    ]
}

fn multiset(v: &[String]) -> BTreeMap<&str, usize> {
    let mut m = BTreeMap::new();
    for x in v {
        *m.entry(x.as_str()).or_insert(0) += 1;
    }
    m
}

/// a ⊆ b as multisets
fn sub(a: &BTreeMap<&str, usize>, b: &BTreeMap<&str, usize>) -> bool {
    a.iter().all(|(k, n)| b.get(k).cloned().unwrap_or(0) >= *n)
}

#[derive(PartialEq, Eq, Debug, Clone, Copy)]
enum Rel {
    Equal,
    PrevLarger,
    CurLarger,
    Incomparable,
}

fn relation(p: &[String], c: &[String]) -> Rel {
    let (mp, mc) = (multiset(p), multiset(c));
    match (sub(&mp, &mc), sub(&mc, &mp)) {
        (true, true) => Rel::Equal,
        (true, false) => Rel::CurLarger,
        (false, true) => Rel::PrevLarger,
        (false, false) => Rel::Incomparable,
    }
}

pub struct PairVerdict {
    pub viols: Vec<(String, String)>,
    pub incomparable: bool,
    pub incomparable_same_size: bool,
    pub nested_strict: bool,
    pub ret_code: i64,
}

/// Judges one merge of `prev` (the victim's data) with `cur`.
pub fn judge_pair(world: &World, victim: usize, prev: &[u8], cur: &[u8], dp: &Dec, dc: &Dec) -> PairVerdict {
    let mut viols = vec![];
    let (cp, cc) = (dp.peer_cids(), dc.peer_cids());
    let peers: BTreeSet<&String> = cp.keys().chain(cc.keys()).collect();
    let empty: Vec<String> = vec![];
    let mut rels: BTreeMap<String, Rel> = BTreeMap::new();
    for x in peers {
        rels.insert(x.clone(), relation(cp.get(x).unwrap_or(&empty), cc.get(x).unwrap_or(&empty)));
    }
    let incomparable: Vec<&String> = rels.iter().filter(|(_, r)| **r == Rel::Incomparable).map(|(k, _)| k).collect();
    let same_size = incomparable.iter().any(|x| cp.get(*x).map(|v| v.len()) == cc.get(*x).map(|v| v.len()));
    let nested_strict = incomparable.is_empty() && rels.values().any(|r| *r != Rel::Equal);
    let o = match host::run(&world.part, &world.peers[victim], prev, cur, &RawResults::new()) {
        Ok(o) => o,
        Err(p) => {
            return PairVerdict { viols: vec![("C15/panic".into(), p)], incomparable: !incomparable.is_empty(), incomparable_same_size: same_size, nested_strict, ret_code: -1 };
        }
    };
    let class = host::outcome_code_class(o.ret_code);
    if !incomparable.is_empty() {
        let who: Vec<String> = incomparable.iter().map(|x| world.peer_name_by_id(x)).collect();
        if class != "prep" {
            viols.push(("C15/incompatible-result-sets-not-rejected".into(), format!("peer(s) {who:?} present result sets where neither contains the other (previous {:?} / current {:?}); the run returned code {} {}", incomparable.iter().map(|x| cp.get(*x).map(|v| v.len()).unwrap_or(0)).collect::<Vec<_>>(), incomparable.iter().map(|x| cc.get(*x).map(|v| v.len()).unwrap_or(0)).collect::<Vec<_>>(), o.ret_code, o.error_message.chars().take(160).collect::<String>())));
        } else if o.data != prev {
            viols.push(("C15/rejected-merge-does-not-return-the-previous-data".into(), format!("code {}", o.ret_code)));
        }
    } else {
        if o.ret_code == codes::DATA_SIGNATURE && o.error_message.contains("inconsistent CID multisets") {
            viols.push(("C15/nested-result-sets-rejected".into(), format!("every peer's result sets are nested, yet: {}", o.error_message.chars().take(300).collect::<String>())));
        }
        if matches!(class, "ok" | "catchable" | "unprocessed") {
            match crate::data::decode(&o.data) {
                Err(e) => viols.push(("C15/merged-data-undecodable".into(), e)),
                Ok(dn) => {
                    for (x, r) in &rels {
                        if *x == world.peers[victim].id {
                            continue; // the running peer signs its own set anew
                        }
                        let Some(px) = world.peers.iter().find(|p| p.id == *x) else { continue };
                        let pk = px.kp.public();
                        let want = match r {
                            Rel::PrevLarger => dp.data.signatures.get(&pk),
                            Rel::CurLarger => dc.data.signatures.get(&pk),
                            _ => dp.data.signatures.get(&pk).or_else(|| dc.data.signatures.get(&pk)),
                        };
                        let got = dn.data.signatures.get(&pk);
                        if want.is_some() && got != want {
                            viols.push(("C15/merged-data-keeps-the-wrong-signature".into(), format!("peer {}: relation {r:?}; the merged data does not carry the signature over the larger result set", world.peer_name_by_id(x))));
                        }
                    }
                }
            }
        }
    }
    PairVerdict { viols, incomparable: !incomparable.is_empty(), incomparable_same_size: same_size, nested_strict, ret_code: o.ret_code }
}

struct Harvest {
    world: World,
    /// (victim peer index, data it holds in some run)
    victim_prev: Vec<(usize, BlobId, Vec<u8>, Rc<Dec>)>,
    all: Vec<(BlobId, Vec<u8>, Rc<Dec>)>,
}

fn harvest(s: &Script, tier: Tier) -> Harvest {
    let world = World::new(s, &["O"], "particle-1");
    let cfg = Cfg { state_cap: if tier == Tier::Quick { 6000 } else { 60000 }, stop_at_first_violation: false, dup: tier == Tier::Thorough, ..Default::default() };
    let ex = netmc::explore(world, &cfg, &mut Noop);
    // previous data each honest peer (every participant but the equivocator M) holds in some run, and every
    // blob of the graph
    let mut pv: BTreeSet<(usize, BlobId)> = BTreeSet::new();
    for r in &ex.cx.runs {
        if ex.cx.world.peers[r.peer].name != "M" && r.peer < ex.cx.world.nact {
            pv.insert((r.peer, r.prev));
            pv.insert((r.peer, r.out));
        }
    }
    let get = |b: BlobId| -> Option<(BlobId, Vec<u8>, Rc<Dec>)> {
        if b == netmc::EMPTY {
            return None;
        }
        ex.cx.dec(b).map(|d| (b, ex.cx.bytes(b).to_vec(), d))
    };
    let victim_prev: Vec<_> = pv.into_iter().filter_map(|(p, b)| get(b).map(|(b, y, d)| (p, b, y, d))).collect();
    let all: Vec<_> = (1..ex.cx.blobs.len() as BlobId).filter_map(get).collect();
    let world = World::new(s, &["O"], "particle-1");
    Harvest { world, victim_prev, all }
}

pub fn check_c15(tier: Tier) -> Report {
    let mut rep = Report::new("C15", "fault_enumeration");
    rep.assumptions = vec![
        "forks are pairs of data from different branches of one explored schedule graph (the equivocating peer re-runs from an earlier state and signs both result sets); every data is honestly produced and signed by the real interpreter".into(),
        "victims are the honest peers A and B; each merges every data it can hold with every data of the graph, with no call results".into(),
        "the expected verdict is computed by the harness from the decoded traces and stores (per-peer multisets of call and canon result ids)".into(),
    ];
    let mut evals = 0u64;
    let mut incomparable = 0u64;
    let mut incomparable_same = 0u64;
    let mut nested = 0u64;
    let mut codes_seen: BTreeMap<i64, u64> = BTreeMap::new();
    let mut per_script = vec![];
    let mut samples = vec![];
    let scripts = fork_scripts();
    let results: Vec<(Vec<Violation>, u64, u64, u64, u64, BTreeMap<i64, u64>, Value)> = {
        let out = std::sync::Mutex::new(vec![]);
        std::thread::scope(|sc| {
            for (si, s) in scripts.iter().enumerate() {
                let out = &out;
                sc.spawn(move || {
                    host::install_panic_hook();
                    let h = harvest(s, tier);
                    let mut v = vec![];
                    let (mut e, mut inc, mut incs, mut nst) = (0u64, 0u64, 0u64, 0u64);
                    let mut cs: BTreeMap<i64, u64> = BTreeMap::new();
                    let stride = if tier == Tier::Quick { (h.victim_prev.len() * h.all.len() / 25000).max(1) } else { 1 };
                    let mut k = 0usize;
                    let mut seen_sig = BTreeSet::new();
                    for (vp, pb, pbytes, pd) in &h.victim_prev {
                        for (cb, cbytes, cd) in &h.all {
                            k += 1;
                            if k % stride != 0 {
                                continue;
                            }
                            let pv = judge_pair(&h.world, *vp, pbytes, cbytes, pd, cd);
                            e += 1;
                            *cs.entry(pv.ret_code).or_insert(0) += 1;
                            if pv.incomparable {
                                inc += 1;
                            }
                            if pv.incomparable_same_size {
                                incs += 1;
                            }
                            if pv.nested_strict {
                                nst += 1;
                            }
                            for (sig, d) in pv.viols {
                                if seen_sig.insert(sig.clone()) {
                                    v.push(Violation {
                                        signature: sig,
                                        description: format!("script {}: victim {}, previous data #{pb}, current data #{cb}: {d}", s.name, h.world.peers[*vp].name),
                                        replay: json!({"engine": "fork", "script": serde_json::to_value(s).unwrap(), "victim": vp, "prev": crate::worker::hex(pbytes), "cur": crate::worker::hex(cbytes)}),
                                    });
                                }
                            }
                        }
                    }
                    let info = json!({"script": s.name, "victim_data": h.victim_prev.len(), "all_data": h.all.len(), "pairs_merged": e, "pair_stride": stride});
                    out.lock().unwrap().push((si, (v, e, inc, incs, nst, cs, info)));
                });
            }
        });
        let mut o = out.into_inner().unwrap();
        o.sort_by_key(|x| x.0);
        o.into_iter().map(|x| x.1).collect()
    };
    for (v, e, inc, incs, nst, cs, info) in results {
        rep.violations.extend(v);
        evals += e;
        incomparable += inc;
        incomparable_same += incs;
        nested += nst;
        for (k, n) in cs {
            *codes_seen.entry(k).or_insert(0) += n;
        }
        if samples.len() < 5 {
            samples.push(info.clone());
        }
        per_script.push(info);
    }
    rep.cov("evaluations", json!(evals));
    rep.cov("distinct_nontrivial", json!(incomparable));
    rep.cov("incomparable_pairs", json!(incomparable));
    rep.cov("incomparable_pairs_of_equal_size", json!(incomparable_same));
    rep.cov("strictly_nested_pairs", json!(nested));
    rep.cov("ret_codes", json!(codes_seen.iter().map(|(k, v)| (k.to_string(), *v)).collect::<BTreeMap<_, _>>()));
    rep.cov("scripts", json!(per_script));
    rep.cov("exhaustive", json!(per_script.iter().all(|i| i["pair_stride"].as_u64() == Some(1))));
    rep.cov("rule", json!("for each FORK script the schedule graph is explored (no duplication, state cap) and every (data an honest peer can hold, any data of the graph) pair is merged by that peer (quick tier: every k-th pair so that about 25000 pairs per script are merged; the stride is in the evidence); expected: some peer's result multisets incomparable => preparation error and the previous data returned byte for byte; all nested => never the inconsistent-multisets error and, when the run returns new data, every other peer's signature is the one from the input that carried its larger multiset; non-trivial = pairs with an incomparable peer"));
    rep.cov("samples", json!(samples));
    if incomparable == 0 || nested == 0 {
        rep.machinery_errors.push("vacuous: no incomparable or no nested pair was produced".into());
    }
    rep
}

pub fn replay(v: &Value) -> i32 {
    let Ok(script) = serde_json::from_value::<Script>(v["script"].clone()) else { return 2 };
    let world = World::new(&script, &["O"], "particle-1");
    let (prev, cur) = (crate::worker::unhex(v["prev"].as_str().unwrap_or("")), crate::worker::unhex(v["cur"].as_str().unwrap_or("")));
    let (Ok(dp), Ok(dc)) = (crate::data::decode(&prev), crate::data::decode(&cur)) else { return 2 };
    let want = v["signature"].as_str().unwrap_or("");
    let victim = v["victim"].as_u64().unwrap_or(0) as usize;
    let a = judge_pair(&world, victim, &prev, &cur, &dp, &dc);
    let b = judge_pair(&world, victim, &prev, &cur, &dp, &dc);
    if a.viols != b.viols {
        println!("REPLAY-NONDETERMINISTIC");
        return 2;
    }
    println!("replayed merge: ret_code {}", a.ret_code);
    match a.viols.iter().find(|x| x.0 == want) {
        Some(x) => {
            println!("VIOLATION property=C15 replay={}", v["__path"].as_str().unwrap_or("<file>"));
            println!("reproduced: {}: {}", x.0, x.1);
            1
        }
        None => {
            println!("not reproduced");
            0
        }
    }
}
