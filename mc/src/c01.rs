//! C01: the interpreter and the other public entry points never panic, abort or need memory out of proportion.
//! Four sweeps, every evaluation inside an isolated worker process (`mc worker`, address-space limit):
//!   (a) adversarial but correctly signed data  - the catalogue of adv.rs at every position of every situation;
//!   (b) bytes                                  - every truncation and single-byte substitution of honest envelopes;
//!   (c) scripts                                - name-clash scripts run to quiescence, deeply nested scripts;
//!   (d) text entry points                      - parse / beautify on token strings (in-process, unwinding only).

use crate::adv::{self, panic_site};
use crate::check::{Report, Tier, Violation};
use crate::host::{self, RawResults};
use crate::worker::{self, Answer, Worker};

use air_interpreter_interface::CallServiceResult;
use serde_json::{json, Value};
use std::collections::BTreeMap;

pub fn par_workers<T: Sync, R: Send>(items: &[T], f: impl Fn(&mut Worker, &T) -> R + Sync) -> (Vec<R>, u64) {
    let n = std::env::var("VERIF_WORKERS").ok().and_then(|s| s.parse().ok()).unwrap_or_else(|| std::thread::available_parallelism().map(|x| x.get()).unwrap_or(8)).min(items.len().max(1));
    let next = std::sync::atomic::AtomicUsize::new(0);
    let out: std::sync::Mutex<Vec<(usize, R)>> = std::sync::Mutex::new(vec![]);
    let restarts = std::sync::atomic::AtomicU64::new(0);
    std::thread::scope(|sc| {
        for _ in 0..n {
            sc.spawn(|| {
                host::install_panic_hook();
                let mut w = Worker::new();
                let mut local = vec![];
                loop {
                    let i = next.fetch_add(1, std::sync::atomic::Ordering::SeqCst);
                    if i >= items.len() {
                        break;
                    }
                    local.push((i, f(&mut w, &items[i])));
                }
                restarts.fetch_add(w.restarts, std::sync::atomic::Ordering::SeqCst);
                out.lock().unwrap().extend(local);
            });
        }
    });
    let mut v = out.into_inner().unwrap();
    v.sort_by_key(|x| x.0);
    (v.into_iter().map(|x| x.1).collect(), restarts.load(std::sync::atomic::Ordering::SeqCst))
}

// ---------------------------------------------------------------------------------------------
// (b) bytes

fn byte_variants(b: &[u8], tier: Tier) -> Vec<(String, Vec<u8>)> {
    let mut out = vec![];
    for n in 0..b.len() {
        out.push((format!("truncate to {n}"), b[..n].to_vec()));
    }
    for i in 0..b.len() {
        let mut subs = vec![0x00u8, 0xff, b[i] ^ 0x01, b[i] ^ 0x80];
        if tier == Tier::Thorough {
            subs.extend([b[i].wrapping_add(1), b[i].wrapping_sub(1), b[i] ^ 0x02, b[i] ^ 0x04, b[i] ^ 0x08, b[i] ^ 0x10, b[i] ^ 0x20, b[i] ^ 0x40]);
        }
        // no de-duplication by value: the number of variants must not depend on the byte values, which depend
        // on the (process-random) order in which hash maps were serialized
        for s in subs {
            let mut c = b.to_vec();
            c[i] = s;
            out.push((format!("byte {i} := {s:#04x}"), c));
        }
    }
    out
}

struct ByteJob {
    sit: usize,
    what: String,
    bytes: Vec<u8>,
}

fn answer_sig(a: &Answer, class: &str) -> Option<(String, String)> {
    match a {
        Answer::Panic(p) => Some((format!("C01/panic/{}", panic_site(p)), p.chars().take(300).collect())),
        Answer::Died(st) if st.contains(crate::worker::WALL_BACKSTOP) => Some(("MACHINERY/worker-wall-clock-backstop".to_string(), st.clone())),
        Answer::Died(st) => Some((format!("C01/process-died/{class}"), st.clone())),
        Answer::Ok(_) => None,
    }
}

// ---------------------------------------------------------------------------------------------
// (c) scripts

/// Name-clash and scope-edge scripts (text; the peer is the init peer).
pub fn clash_scripts() -> Vec<(&'static str, String)> {
    let p = "%init_peer_id%";
    let call = |f: &str, args: &str, out: &str| format!(r#"(call {p} ("s" "{f}") [{args}] {out})"#);
    let arr = call("arr0", "", "x");
    vec![
        ("scalar-before-fold-with-same-iterator", format!("(seq (ap 1 i) (seq {arr} (fold x i {})))", call("f", "i", ""))),
        ("scalar-between-iterable-and-fold", format!("(seq {arr} (seq (ap 1 i) (fold x i {})))", call("f", "i", ""))),
        ("scalar-written-inside-fold", format!("(seq {arr} (fold x i (seq (ap 1 i) (next i))))")),
        ("call-output-named-as-iterator", format!("(seq {arr} (fold x i (seq {} (next i))))", call("f", "i", "i"))),
        ("iterable-is-iterator", format!("(seq {arr} (fold x x (null)))")),
        ("iterator-after-fold", format!("(seq {arr} (seq (fold x i (null)) {}))", call("f", "i", ""))),
        ("next-after-fold", format!("(seq {arr} (seq (fold x i (null)) (next i)))")),
        ("new-around-fold-over-iterator-name", format!("(new i (seq {arr} (fold x i {})))", call("f", "i", ""))),
        ("nested-fold-same-iterator-via-new", format!("(seq {arr} (fold x i (new $z (fold x j (seq {} (next j))))))", call("f", "i j", ""))),
        ("iterator-shadowed-by-scalar-in-nested-new", format!("(seq {arr} (fold x i (new y (seq (ap i y) (seq {} (next i))))))", call("f", "y", ""))),
        ("scalar-then-fold-then-scalar-use", format!("(seq (ap 1 i) (seq {arr} (seq (fold x i (null)) {})))", call("f", "i", ""))),
        ("fold-over-iterator-of-outer-fold", format!("(seq {} (fold xs a (seq (fold a i (seq {} (next i))) (next a))))", call("arrarr", "", "xs"), call("f", "i", ""))),
        ("canon-name-equals-stream-name", format!("(seq {} (seq (canon {p} $s #s) (fold #s i (seq (ap i $s) (next i)))))", call("f1", "", "$s"))),
        ("recursive-stream-bounded-by-match", format!("(seq {} (fold $s i (seq (xor (match i.$.d 3 (null)) {}) (next i))))", call("rec0", "", "$s"), call("rec1", "i", "$s"))),
        ("fail-undefined-scalar", "(fail x)".to_string()),
        ("fail-undefined-scalar-caught", format!("(xor (fail x) {})", call("h", ":error:", ""))),
        ("ap-map-undefined-value", format!(r#"(seq (ap ("k" undefinedvar) %m) (seq (canon {p} %m #%c) {}))"#, call("f", "#%c", ""))),
        ("map-key-collision-string-and-number", format!(r#"(seq (ap ("1" "a") %m) (seq (ap (1 "b") %m) (seq (canon {p} %m scalar) {})))"#, call("f", "scalar", ""))),
        ("fold-over-map-with-non-object", format!(r#"(seq (ap ("k" 1) %m) (fold %m kv (seq {} (next kv))))"#, call("f", "kv.$.key kv.$.value", ""))),
        ("canon-map-lens-missing", format!(r#"(seq (ap ("k" 1) %m) (seq (canon {p} %m #%c) {}))"#, call("f", "#%c.$.nokey.[5].x", ""))),
        ("length-of-everything", format!("(seq {arr} (seq {} (seq (canon {p} $s #cs) {})))", call("f1", "", "$s"), call("f", "x.length #cs.length", ""))),
        ("match-with-everything", format!(r#"(seq {arr} (xor (match x [] (null)) (xor (mismatch x x (null)) (match %last_error% :error: (null)))))"#)),
        ("fail-with-non-object", format!("(seq {arr} (xor (fail x) (fail :error:)))")),
        ("fail-last-error-without-error", "(xor (fail %last_error%) (fail :error:))".to_string()),
        ("new-never-set", format!("(new y {})", call("f", "y", ""))),
        ("call-triplet-from-array", format!("(seq {arr} (call x (x x) []))")),
        ("timestamp-ttl-args", format!("{}", call("f", "%timestamp% %ttl% %init_peer_id% [] \"lit\" 1 1.5 true", "r"))),
    ]
}

fn nested_scripts(tier: Tier) -> Vec<(String, String)> {
    let mut out = vec![];
    let depths: Vec<usize> = if tier == Tier::Quick { vec![10, 100, 1000] } else { vec![10, 100, 1000, 10_000, 100_000] };
    for d in depths {
        for kw in ["seq", "par", "xor"] {
            let mut s = String::new();
            for _ in 0..d {
                s.push_str(&format!("({kw} (null) "));
            }
            s.push_str("(null)");
            for _ in 0..d {
                s.push(')');
            }
            out.push((format!("{kw}-right-nested-{d}"), s));
            let mut s = String::new();
            for _ in 0..d {
                s.push_str(&format!("({kw} "));
            }
            s.push_str("(null)");
            for _ in 0..d {
                s.push_str(" (null))");
            }
            out.push((format!("{kw}-left-nested-{d}"), s));
        }
        let mut s = String::new();
        for i in 0..d {
            s.push_str(&format!("(new v{i} "));
        }
        s.push_str("(null)");
        for _ in 0..d {
            s.push(')');
        }
        out.push((format!("new-nested-{d}"), s));
    }
    out
}

fn service_answer(function: &str, args: &[String]) -> CallServiceResult {
    let ok = |v: Value| CallServiceResult { ret_code: 0, result: v.to_string() };
    if function.starts_with("arrarr") {
        return ok(json!([[1, 2], [3]]));
    }
    if function.starts_with("arr") {
        return ok(json!(["e0", "e1"]));
    }
    if function.starts_with("rec") {
        let d = args.first().and_then(|a| serde_json::from_str::<Value>(a).ok()).and_then(|v| v["d"].as_i64()).map(|d| d + 1).unwrap_or(0);
        return ok(json!({"d": d}));
    }
    ok(json!({"f": function, "a": args.iter().map(|a| serde_json::from_str::<Value>(a).unwrap_or(Value::Null)).collect::<Vec<_>>()}))
}

/// Runs a script on one peer until it is quiescent (or `rounds` runs), everything inside the worker.
fn run_to_quiescence(w: &mut Worker, air: &str, rounds: usize) -> (Vec<i64>, Option<(String, String)>) {
    let mut prev: Vec<u8> = vec![];
    let mut results = RawResults::new();
    let mut codes = vec![];
    for _ in 0..rounds {
        let req = worker::exec_req(air, "A", "A", "particle-1", &prev, &[], &host::encode_results(&results));
        let a = w.ask(&req);
        if let Some(sig) = answer_sig(&a, "script") {
            return (codes, Some(sig));
        }
        let Answer::Ok(o) = a else { unreachable!() };
        codes.push(o["ret_code"].as_i64().unwrap_or(-1));
        if o["data_eq_prev"].as_bool() != Some(true) {
            prev = worker::unhex(o["data"].as_str().unwrap_or(""));
        }
        let reqs = host::decode_requests(&worker::unhex(o["requests"].as_str().unwrap_or(""))).unwrap_or_default();
        if reqs.is_empty() {
            break;
        }
        results = reqs.iter().map(|(id, r)| (*id, service_answer(&r.function, &r.args))).collect();
    }
    (codes, None)
}

// ---------------------------------------------------------------------------------------------

pub fn check_c01(tier: Tier) -> Report {
    // (a) adversarial data
    let t0 = std::time::Instant::now();
    let progress = |what: &str| {
        if std::env::var("VERIF_DEBUG").is_ok() {
            host::elog(&format!("[c01 {:.1}s] {what}", t0.elapsed().as_secs_f64()));
        }
    };
    let (o, mut rep) = adv::check_c01_data(tier);
    progress("adversarial data sweep done");
    let mut viols: Vec<Violation> = o.c01;
    let mut counts: BTreeMap<String, u64> = BTreeMap::new();
    counts.insert("adversarial-data-mutants-executed".into(), o.stats.executed);
    let mut restarts = o.worker_restarts;

    // (b) bytes: the current data of a few situations, mutated at every position
    let sits = adv::harvest(tier);
    let nblobs = if tier == Tier::Quick { 3 } else { 10 };
    let mut jobs: Vec<ByteJob> = vec![];
    let stride = (sits.len() / nblobs).max(1);
    for (k, (si, s)) in sits.iter().enumerate().step_by(stride).take(nblobs).enumerate() {
        for (n, (what, bytes)) in byte_variants(&s.cur, tier).into_iter().enumerate() {
            // quick tier: every truncation of every blob (they never validate, so they need no forked child);
            // substitutions at every position of the first blob's first and last 200 bytes (envelope header,
            // signature store) and at every 9th variant elsewhere
            let is_trunc = what.starts_with("truncate");
            let near_edge = k == 0 && (n < s.cur.len() + 800 || n + 800 > s.cur.len() * 5);
            if tier == Tier::Quick && !is_trunc && !near_edge && n % 9 != 0 {
                continue;
            }
            jobs.push(ByteJob { sit: si, what, bytes });
        }
    }
    progress(&format!("{} byte jobs", jobs.len()));
    let (res, r2) = par_workers(&jobs, |w, j| {
        let s = &sits[j.sit];
        let isolate = worker::inner_data_validates(&j.bytes);
        let req = json!({"op": "exec+human", "isolate": isolate, "air": s.air, "peer": s.victim, "init_id": s.init_id, "particle": s.particle, "prev": worker::hex(&s.prev), "cur": worker::hex(&j.bytes), "results": worker::hex(&host::encode_results(&RawResults::new()))});
        let split = |v: &Value| -> Answer {
            if let Some(p) = v.get("panic") {
                Answer::Panic(p.as_str().unwrap_or("").to_string())
            } else {
                Answer::Ok(v["ok"].clone())
            }
        };
        let (a, h) = match w.ask(&req) {
            Answer::Ok(o) if o["unsound"].as_bool() == Some(true) => {
                let sig = Some(("C01/unsound-string-after-deserializing-a-validated-archive".to_string(), "the inner data passes rkyv validation and deserializes into a reference-counted string that is not valid UTF-8 (a second shared pointer to an already validated address with another length); the interpreter would go on to use it".to_string()));
                return (sig, None, true, isolate);
            }
            Answer::Ok(o) => (split(&o["exec"]), split(&o["human"])),
            other => (other.clone(), Answer::Ok(Value::Null)),
        };
        let past = matches!(&a, Answer::Ok(o) if !(1..10000).contains(&o["ret_code"].as_i64().unwrap_or(1)));
        (answer_sig(&a, "bytes-as-current-data"), answer_sig(&h, "bytes-to-human-readable"), past, isolate)
    });
    restarts += r2;
    progress("byte sweep done");
    let mut bytes_past = 0u64;
    let mut isolated = 0u64;
    for (j, (a, h, past, iso)) in jobs.iter().zip(res) {
        if past {
            bytes_past += 1;
        }
        if iso {
            isolated += 1;
        }
        for (sig, entry) in [(a, "execute_air"), (h, "to_human_readable_data")] {
            if let Some((sig, detail)) = sig {
                let s = &sits[j.sit];
                viols.push(Violation {
                    signature: sig,
                    description: format!("{entry} on the current data of {} (victim {}) with {}: {detail}", s.script.name, s.victim, j.what),
                    replay: json!({"engine": "c01bytes", "entry": entry, "air": s.air, "victim": s.victim, "init_id": s.init_id, "particle": s.particle, "prev": worker::hex(&s.prev), "cur": worker::hex(&j.bytes)}),
                });
            }
        }
    }
    counts.insert("byte-variants-executed".into(), jobs.len() as u64 * 2);
    counts.insert("byte-variants-past-preparation".into(), bytes_past);
    counts.insert("byte-variants-whose-inner-data-still-validates (evaluated in a forked child each)".into(), isolated);

    // (c) scripts
    let mut script_jobs: Vec<(String, String, usize)> = clash_scripts().into_iter().map(|(n, t)| (n.to_string(), t, 12)).collect();
    script_jobs.extend(nested_scripts(tier).into_iter().map(|(n, t)| (n, t, 2)));
    let (res, r3) = par_workers(&script_jobs, |w, (_, t, rounds)| {
        let run = run_to_quiescence(w, t, *rounds);
        let p = w.ask(&json!({"op": "parse", "text": t}));
        let b = w.ask(&json!({"op": "beautify", "text": t}));
        (run, answer_sig(&p, "parse"), answer_sig(&b, "beautify"))
    });
    restarts += r3;
    progress("script sweep done");
    let mut script_codes: BTreeMap<String, Vec<i64>> = BTreeMap::new();
    for ((name, text, _), ((codes, sig), p, b)) in script_jobs.iter().zip(res) {
        script_codes.insert(name.clone(), codes);
        for (sig, entry) in [(sig, "execute_air"), (p, "parse"), (b, "beautify")] {
            if let Some((mut sig, detail)) = sig {
                // a dead process on a deeply nested script is the stack running out (SIGABRT from the stack guard,
                // or SIGSEGV): one signature per entry point, so that the listed finding cannot hide anything else
                if name.contains("-nested-") && sig.starts_with("C01/process-died/") && (detail.contains("signal 6") || detail.contains("signal 11")) {
                    sig = format!("C01/stack-exhausted-by-deep-nesting/{entry}");
                }
                let shown: String = text.chars().take(300).collect();
                viols.push(Violation { signature: sig, description: format!("{entry} on script {name}: {shown}: {detail}"), replay: json!({"engine": "c01script", "entry": entry, "name": name, "air": text}) });
            }
        }
    }
    counts.insert("scripts-run-to-quiescence".into(), script_jobs.len() as u64);

    rep.violations = adv::uniq(viols);
    rep.cov("evaluations", json!(o.stats.executed + jobs.len() as u64 * 2 + script_jobs.len() as u64 * 3));
    rep.cov("distinct_nontrivial", json!(o.stats.past_preparation));
    rep.cov("cases_by_sweep", json!(counts));
    rep.cov("worker_restarts", json!(restarts));
    rep.cov("script_ret_codes", json!(script_codes));
    rep.cov("rule", json!("(a) every operator of the adversarial catalogue at every position of every harvested situation, re-signed by the attacker and not, executed by the victim; (b) every truncation length and every single-byte substitution {0x00, 0xff, bit 0 flipped, bit 7 flipped} (thorough: every single bit, +-1) of the current data of a few situations, fed to execute_air as current data and to to_human_readable_data; (c) name-clash / scope-edge scripts run on one peer until quiescent with a fixed service, and seq/par/xor/new nested 10..1000 (thorough ..100000) deep, each also parsed and beautified; (how many byte variants still validate or get past preparation varies slightly from run to run, because the byte order of the serialized hash maps does); violation = a panic (reported with its location), a dead worker process (signal / abort / allocation failure under the 4 GiB address-space limit); non-trivial = adversarial-data mutants that got past preparation (the byte variants that did are counted separately under cases_by_sweep)"));
    rep
}

/// `mc replay` for the byte and script sweeps.
pub fn replay(v: &Value) -> i32 {
    let want = v["signature"].as_str().unwrap_or("");
    let mut seen = vec![];
    for _ in 0..2 {
        let mut w = Worker::new();
        let sig = match v["engine"].as_str().unwrap_or("") {
            "c01bytes" => {
                let cur = worker::unhex(v["cur"].as_str().unwrap_or(""));
                if let Answer::Ok(o) = w.ask(&json!({"op": "exec+human", "isolate": true, "air": v["air"], "peer": v["victim"], "init_id": v["init_id"], "particle": v["particle"], "prev": v["prev"], "cur": worker::hex(&cur), "results": worker::hex(&host::encode_results(&RawResults::new()))})) {
                    if o["unsound"].as_bool() == Some(true) {
                        seen.push("C01/unsound-string-after-deserializing-a-validated-archive".to_string());
                        continue;
                    }
                }
                if v["entry"] == "execute_air" {
                    let req = json!({"op": "exec", "isolate": true, "air": v["air"], "peer": v["victim"], "init_id": v["init_id"], "particle": v["particle"], "prev": v["prev"], "cur": worker::hex(&cur), "results": worker::hex(&host::encode_results(&RawResults::new()))});
                    answer_sig(&w.ask(&req), "bytes-as-current-data")
                } else {
                    answer_sig(&w.ask(&json!({"op": "human", "isolate": true, "data": worker::hex(&cur)})), "bytes-to-human-readable")
                }
            }
            _ => {
                let air = v["air"].as_str().unwrap_or("");
                match v["entry"].as_str().unwrap_or("") {
                    "parse" => answer_sig(&w.ask(&json!({"op": "parse", "text": air})), "parse"),
                    "beautify" => answer_sig(&w.ask(&json!({"op": "beautify", "text": air})), "beautify"),
                    _ => run_to_quiescence(&mut w, air, 12).1,
                }
                .map(|(sg, detail)| {
                    if v["name"].as_str().unwrap_or("").contains("-nested-") && sg.starts_with("C01/process-died/") && (detail.contains("signal 6") || detail.contains("signal 11")) {
                        (format!("C01/stack-exhausted-by-deep-nesting/{}", v["entry"].as_str().unwrap_or("")), detail)
                    } else {
                        (sg, detail)
                    }
                })
            }
        };
        seen.push(sig.map(|s| s.0).unwrap_or_else(|| "no crash".into()));
    }
    println!("replayed: {seen:?}");
    if seen[0] != seen[1] {
        println!("REPLAY-NONDETERMINISTIC");
        return 2;
    }
    if seen[0] == want {
        println!("VIOLATION property=C01 replay={}", v["__path"].as_str().unwrap_or("<file>"));
        1
    } else {
        println!("not reproduced");
        0
    }
}
