//! Script families (DESIGN.md section 5): finite grammars enumerated completely up to a size bound.

use crate::script::*;

fn peers3() -> Vec<String> {
    vec!["A".into(), "B".into(), "C".into()]
}

/// All sequences of length n over {A,B,C} modulo renaming of B and C (A is the init peer and stays).
pub fn peer_assignments(n: usize) -> Vec<Vec<&'static str>> {
    let mut out = vec![];
    let names = ["A", "B", "C"];
    let total = 3usize.pow(n as u32);
    for code in 0..total {
        let mut v = vec![];
        let mut c = code;
        for _ in 0..n {
            v.push(names[c % 3]);
            c /= 3;
        }
        // canonical iff the first non-A peer is B (C may only appear after a B)
        let first_b = v.iter().position(|x| *x == "B");
        let first_c = v.iter().position(|x| *x == "C");
        let canonical = match (first_b, first_c) {
            (_, None) => true,
            (None, Some(_)) => false,
            (Some(b), Some(c)) => b < c,
        };
        if canonical {
            out.push(v);
        }
    }
    out
}

fn sname(parts: &[&str]) -> String {
    parts.join("/")
}

// ---------------------------------------------------------------------------------------------
// STREAM

fn writer(kind: char, peer: &str, idx: usize, stream: &str) -> I {
    match kind {
        'c' => call(peer, &format!("f{idx}"), vec![], st(stream)),
        // an ap executes wherever the particle is; value distinct per site
        _ => I::Ap { src: Arg::Str(format!("lit{idx}")), dst: stream.into() },
    }
}

fn writer_layouts(n: usize) -> Vec<(&'static str, fn(Vec<I>) -> I)> {
    fn l_par(v: Vec<I>) -> I {
        pars(v)
    }
    fn l_seq(v: Vec<I>) -> I {
        seqs(v)
    }
    fn l_seq_par(mut v: Vec<I>) -> I {
        let first = v.remove(0);
        seq(first, pars(v))
    }
    fn l_par_seq(mut v: Vec<I>) -> I {
        let first = v.remove(0);
        par(first, seqs(v))
    }
    let mut out: Vec<(&'static str, fn(Vec<I>) -> I)> = vec![("par", l_par), ("seq", l_seq)];
    if n >= 3 {
        out.push(("seqpar", l_seq_par));
        out.push(("parseq", l_par_seq));
    }
    if n == 1 {
        out.truncate(1);
    }
    out
}

/// Consumers of `$s`; each gets the list of peers for its own instructions.
fn stream_consumers(stream: &str) -> Vec<(String, Box<dyn Fn(&[&str]) -> I>, usize)> {
    let s = stream.to_string();
    let mut out: Vec<(String, Box<dyn Fn(&[&str]) -> I>, usize)> = vec![];
    {
        let s = s.clone();
        out.push((
            "canon-obs".into(),
            Box::new(move |p: &[&str]| seq(canon(p[0], &s, "#cn"), call(p[1], "obs", vec![Arg::Canon("#cn".into())], sc("o")))),
            2,
        ));
    }
    {
        let s = s.clone();
        out.push((
            "canon-obs-obs".into(),
            Box::new(move |p: &[&str]| {
                seqs(vec![
                    canon(p[0], &s, "#cn"),
                    par(call(p[1], "obs", vec![Arg::Canon("#cn".into())], sc("o")), call(p[0], "obs2", vec![Arg::CanonLens("#cn".into(), ".[0]".into())], sc("o2"))),
                ])
            }),
            2,
        ));
    }
    let bodies: Vec<(&str, fn(&str) -> I)> = vec![
        ("call", |p| call(p, "visit", vec![var("i")], Out::None)),
        ("seq-call-next", |p| seq(call(p, "visit", vec![var("i")], Out::None), I::Next("i".into()))),
        ("par-call-next", |p| par(call(p, "visit", vec![var("i")], Out::None), I::Next("i".into()))),
        ("seq-ap-next", |_p| seq(I::Ap { src: var("i"), dst: "$t".into() }, I::Next("i".into()))),
        ("seq-callt-next", |p| seq(call(p, "g", vec![var("i")], st("$t")), I::Next("i".into()))),
        ("xor-fail-next", |p| {
            seq(xor(call(p, "failv", vec![var("i")], Out::None), call(p, "h", vec![var("i")], Out::None)), I::Next("i".into()))
        }),
        ("par-par-next", |p| {
            par(par(call(p, "visit", vec![var("i")], Out::None), call("A", "visit2", vec![var("i")], Out::None)), I::Next("i".into()))
        }),
    ];
    for (bn, bf) in bodies {
        let s2 = s.clone();
        out.push((format!("fold-{bn}"), Box::new(move |p: &[&str]| fold(Arg::Stream(s2.clone()), "i", bf(p[0]))), 1));
    }
    {
        let s2 = s.clone();
        out.push((
            "fold-last".into(),
            Box::new(move |p: &[&str]| I::Fold {
                iterable: Arg::Stream(s2.clone()),
                iter: "i".into(),
                body: Box::new(seq(call(p[0], "visit", vec![var("i")], Out::None), I::Next("i".into()))),
                last: Some(Box::new(call(p[0], "last", vec![], Out::None))),
            }),
            1,
        ));
    }
    {
        // fold then local observation on the folding peer (C13 observation point)
        let s2 = s.clone();
        out.push((
            "fold-then-canon".into(),
            Box::new(move |p: &[&str]| {
                seq(
                    fold(Arg::Stream(s2.clone()), "i", seq(call(p[0], "g", vec![var("i")], st("$t")), I::Next("i".into()))),
                    seq(canon(p[1], "$t", "#t"), call(p[1], "obs", vec![Arg::Canon("#t".into())], sc("o"))),
                )
            }),
            2,
        ));
    }
    {
        // par-in-fold with a fold-in-par next to it
        let s2 = s.clone();
        out.push((
            "par-fold-fold".into(),
            Box::new(move |p: &[&str]| {
                par(
                    fold(Arg::Stream(s2.clone()), "i", par(call(p[0], "visit", vec![var("i")], Out::None), I::Next("i".into()))),
                    fold(Arg::Stream(s2.clone()), "j", seq(call(p[1], "visitj", vec![var("j")], Out::None), I::Next("j".into()))),
                )
            }),
            2,
        ));
    }
    out
}

pub fn stream_family(level: u32) -> Vec<Script> {
    let mut out = vec![];
    let cons = stream_consumers("$s");
    for n in 1..=3usize {
        for (lname, lf) in writer_layouts(n) {
            for pa in peer_assignments(n) {
                // level 0: a representative subset of peer assignments
                if level == 0 && n == 3 && !(pa == ["A", "B", "C"] || pa == ["B", "C", "B"] || pa == ["B", "B", "C"]) {
                    continue;
                }
                if level == 0 && n == 2 && !(pa == ["A", "B"] || pa == ["B", "C"] || pa == ["B", "B"]) {
                    continue;
                }
                for kinds in ["c", "a"] {
                    // "a": the last writer is an ap instead of a call
                    if kinds == "a" && (n == 1 || level == 0 && lname != "par") {
                        continue;
                    }
                    let ws: Vec<I> = (0..n)
                        .map(|i| writer(if kinds == "a" && i == n - 1 { 'a' } else { 'c' }, pa[i], i + 1, "$s"))
                        .collect();
                    let wtree = lf(ws);
                    for (cname, cf, npeers) in &cons {
                        let cps: Vec<Vec<&str>> = if *npeers == 1 {
                            vec![vec!["A"], vec!["B"], vec!["C"]]
                        } else {
                            vec![vec!["A", "B"], vec!["B", "A"], vec!["B", "C"], vec!["A", "A"], vec!["C", "B"]]
                        };
                        for cp in cps {
                            if level == 0 && (cp == ["C"] || cp == ["C", "B"] || cp == ["A", "A"]) {
                                continue;
                            }
                            let ast = seq(wtree.clone(), cf(&cp));
                            out.push(Script {
                                family: "STREAM".into(),
                                name: sname(&["STREAM", &format!("w{n}"), lname, &pa.join(""), kinds, cname, &cp.join("")]),
                                ast,
                                peers: peers3(),
                            });
                        }
                    }
                }
            }
        }
    }
    // new-scoped stream: writers into $n inside (new $n ...), fold / canon inside the scope
    for pa in peer_assignments(2) {
        for inner in ["fold", "canon"] {
            for outer_fold in [false, true] {
                if level == 0 && !(pa == ["A", "B"] || pa == ["B", "C"]) {
                    continue;
                }
                let ws = par(call(pa[0], "f1", vec![], st("$n")), call(pa[1], "f2", vec![], st("$n")));
                let consumer = if inner == "fold" {
                    fold(Arg::Stream("$n".into()), "i", seq(call("A", "visit", vec![var("i")], Out::None), I::Next("i".into())))
                } else {
                    seq(canon("B", "$n", "#cn"), call("A", "obs", vec![Arg::Canon("#cn".into())], sc("o")))
                };
                let scoped = new("$n", seq(ws, consumer));
                let ast = if outer_fold {
                    // the scope is re-entered per iteration of a scalar fold: distinct stream instances
                    seq(
                        call("A", "arr0", vec![], sc("xs")),
                        fold(var("xs"), "k", seq(new("$n", seq(call(pa[0], "fk", vec![var("k")], st("$n")), seq(canon("A", "$n", "#cn"), call("B", "obs", vec![Arg::Canon("#cn".into()), var("k")], Out::None)))), I::Next("k".into()))),
                    )
                } else {
                    scoped
                };
                if outer_fold && inner == "canon" {
                    continue;
                }
                out.push(Script {
                    family: "STREAM".into(),
                    name: sname(&["STREAM", "new", &pa.join(""), inner, if outer_fold { "in-scalar-fold" } else { "top" }]),
                    ast,
                    peers: peers3(),
                });
            }
        }
    }
    // bounded recursive stream: the body appends to $s until the value's depth reaches 2
    for (p0, p1) in [("A", "B"), ("B", "C"), ("B", "A"), ("B", "B")] {
        for shape in ["seq", "par"] {
            if level == 0 && shape == "par" && p0 != "B" {
                continue;
            }
            let step = xor(I::Mismatch(Arg::Lens("i".into(), ".d".into()), Arg::Num(2), Box::new(call(p1, "rec", vec![var("i")], st("$s")))), I::Null);
            let body = if shape == "seq" { seq(step, I::Next("i".into())) } else { par(step, I::Next("i".into())) };
            let ast = seq(call(p0, "rec0", vec![], st("$s")), fold(Arg::Stream("$s".into()), "i", body));
            out.push(Script { family: "STREAM".into(), name: sname(&["STREAM", "recursive", p0, p1, shape]), ast, peers: peers3() });
        }
        // the same recursion with a visit of every value at p0 (C13: values appended while the fold runs are visited too)
        if level == 0 && p0 == "B" && p1 != "B" {
            continue;
        }
        let step = xor(I::Mismatch(Arg::Lens("i".into(), ".d".into()), Arg::Num(2), Box::new(call(p1, "rec", vec![var("i")], st("$s")))), I::Null);
        let body = seq(seq(call(p0, "visit", vec![var("i")], Out::None), step), I::Next("i".into()));
        let ast = seq(call(p0, "rec0", vec![], st("$s")), fold(Arg::Stream("$s".into()), "i", body));
        out.push(Script { family: "STREAM".into(), name: sname(&["STREAM", "recursive-visit", p0, p1, "seq"]), ast, peers: peers3() });
    }
    out.extend(route_family(level));
    // development aid: VERIF_MIX_LEVEL=1 explores the thorough variants of the mix family in a quick run
    out.extend(mix_family(level.max(std::env::var("VERIF_MIX_LEVEL").ok().and_then(|v| v.parse().ok()).unwrap_or(0))));
    // a stream derived from another one inside a fold (`ap i $t`), then folded itself with a call chain per value:
    // the positions of the ap entries depend on the local order of $s, which differs between peers
    for (p1, p2) in [("A", "B"), ("B", "C"), ("B", "A")] {
        if level == 0 && p1 == "B" && p2 == "A" {
            continue;
        }
        let writers = par(call(p1, "f1", vec![], st("$s")), call(p2, "f2", vec![], st("$s")));
        let copy = fold(Arg::Stream("$s".into()), "i", seq(I::Ap { src: var("i"), dst: "$t".into() }, I::Next("i".into())));
        let work = fold(Arg::Stream("$t".into()), "o", par(seq(call(p1, "work", vec![var("o")], sc("x")), call(p2, "done", vec![var("x")], sc("y"))), I::Next("o".into())));
        out.push(Script { family: "STREAM".into(), name: sname(&["STREAM", "derived-stream", p1, p2, "par"]), ast: par(writers.clone(), par(copy.clone(), work.clone())), peers: peers3() });
        out.push(Script { family: "STREAM".into(), name: sname(&["STREAM", "derived-stream", p1, p2, "seq"]), ast: seq(writers, seq(copy, work)), peers: peers3() });
    }
    out
}

/// Shapes the base STREAM grammar does not produce: folds over canonical streams and maps, nested stream folds,
/// a `new`-scoped stream per stream-fold iteration, two canonicalizations of one stream, a stream write in an xor
/// handler, iterator-dependent branching inside a stream fold, `last` instruction with a par/next body.
pub fn mix_family(level: u32) -> Vec<Script> {
    let mut out = vec![];
    let mut push = |name: Vec<&str>, ast: I| out.push(Script { family: "STREAM".into(), name: sname(&name), ast, peers: peers3() });
    let pairs: Vec<(&str, &str)> = if level == 0 { vec![("A", "B"), ("B", "C")] } else { vec![("A", "B"), ("B", "C"), ("B", "A"), ("B", "B"), ("C", "B")] };
    for (p1, p2) in pairs.iter().copied() {
        let pn = format!("{p1}{p2}");
        let writers = || par(call(p1, "f1", vec![], st("$s")), call(p2, "f2", vec![], st("$s")));
        // M1: scalar fold over the canonical stream
        for (cp, vp) in [("A", "B"), ("B", "A"), ("B", "C")] {
            if level == 0 && cp == "B" && vp == "C" && p1 != "A" {
                continue;
            }
            for shape in ["seq", "par"] {
                let visit = call(vp, "visit", vec![var("i")], Out::None);
                let body = if shape == "seq" { seq(visit, I::Next("i".into())) } else { par(visit, I::Next("i".into())) };
                push(vec!["STREAM", "mix", "fold-over-canon", &pn, cp, vp, shape], seq(writers(), seq(canon(cp, "$s", "#cn"), fold(Arg::Canon("#cn".into()), "i", body))));
            }
        }
        // M2: nested stream folds
        for shape in ["seq", "par"] {
            let inner_call = call(p2, "visit2", vec![var("i"), var("j")], Out::None);
            let (inner, outer_wrap): (I, fn(I, I) -> I) = if shape == "seq" { (seq(inner_call, I::Next("j".into())), seq) } else { (par(inner_call, I::Next("j".into())), par) };
            let nested = fold(Arg::Stream("$s".into()), "i", outer_wrap(fold(Arg::Stream("$t".into()), "j", inner), I::Next("i".into())));
            push(vec!["STREAM", "mix", "nested-folds", &pn, shape], seq(writers(), seq(call(p1, "g1", vec![], st("$t")), nested)));
        }
        // M3: a stream scoped by `new` inside every iteration of a stream fold
        {
            let scoped = new("$n", seq(call(p2, "w", vec![var("i")], st("$n")), seq(canon(p2, "$n", "#cn"), call(p1, "obs", vec![Arg::Canon("#cn".into())], Out::None))));
            push(vec!["STREAM", "mix", "new-in-stream-fold", &pn, "seq"], seq(writers(), fold(Arg::Stream("$s".into()), "i", seq(scoped.clone(), I::Next("i".into())))));
            if level > 0 {
                push(vec!["STREAM", "mix", "new-in-stream-fold", &pn, "par"], seq(writers(), fold(Arg::Stream("$s".into()), "i", par(scoped, I::Next("i".into())))));
            }
        }
        // M4: two canonicalizations of one stream, a write in between
        push(
            vec!["STREAM", "mix", "two-canons", &pn],
            seq(writers(), seq(canon("A", "$s", "#c1"), seq(call(p2, "f3", vec![], st("$s")), seq(canon("B", "$s", "#c2"), call("A", "obs", vec![Arg::Canon("#c1".into()), Arg::Canon("#c2".into())], sc("o")))))),
        );
        // M5: a stream write performed by an xor handler, next to a plain writer
        push(
            vec!["STREAM", "mix", "write-in-handler", &pn],
            seq(par(xor(call(p1, "fail1", vec![], Out::None), call(p1, "f1", vec![], st("$s"))), call(p2, "f2", vec![], st("$s"))), seq(canon("A", "$s", "#cn"), call("B", "obs", vec![Arg::Canon("#cn".into())], sc("o")))),
        );
        // M7: the iterator value selects the branch taken in each iteration
        push(
            vec!["STREAM", "mix", "branch-on-iterator", &pn],
            seq(
                writers(),
                fold(
                    Arg::Stream("$s".into()),
                    "i",
                    seq(xor(I::Match(Arg::Lens("i".into(), ".f".into()), Arg::Str("f1".into()), Box::new(call("A", "onf1", vec![var("i")], Out::None))), call("B", "other", vec![var("i")], Out::None)), I::Next("i".into())),
                ),
            ),
        );
        // M9: a run that merges a remote stream value and then ends with an uncaught catchable error, while another
        // request of the peer is still pending: the data of the failed run is what the peer's next run starts from.
        // (A failure inside a stream fold is swallowed by the fold, so the failure sits after a fire-and-forget call
        // that makes the remote peer forward the particle although its own run fails too.)
        for (caught, wn) in [(false, "uncaught"), (true, "caught-later")] {
            if caught && level == 0 && p1 != "A" {
                continue;
            }
            let ws = par(call(p1, "f1", vec![], st("$s")), seq(call(p2, "f2", vec![], st("$s")), call(p2, "g", vec![], sc("flag"))));
            let failing = seq(par(call("A", "use", vec![var("flag")], sc("z")), I::Null), I::Mismatch(Arg::Lens("flag".into(), ".f".into()), Arg::Str("g".into()), Box::new(I::Null)));
            let tail = if caught { xor(failing, seq(canon("A", "$s", "#cn"), call("A", "obs", vec![Arg::Canon("#cn".into())], sc("o")))) } else { failing };
            push(vec!["STREAM", "mix", "fail-after-merging-remote-value", &pn, wn], seq(par(ws, call("A", "slow", vec![], sc("q"))), tail));
        }
        // M10: the same stream folded twice in a row; the second fold appends to the stream it iterates (a literal, once,
        // when it meets the value of f1) - every fold visits every value, including the one appended meanwhile
        for (vp1, vp2) in [("A", "A"), ("A", "B"), ("B", "A")] {
            if level == 0 && vp1 == "B" && p1 != "A" {
                continue;
            }
            // (a stream fold without a last instruction never completes, so the seq would not go on: last = null)
            let first = I::Fold { iterable: Arg::Stream("$s".into()), iter: "i".into(), body: Box::new(seq(call(vp1, "visit1", vec![var("i")], Out::None), I::Next("i".into()))), last: Some(Box::new(I::Null)) };
            let grow = xor(I::Match(Arg::Lens("j".into(), ".f".into()), Arg::Str("f1".into()), Box::new(I::Ap { src: Arg::Str("extra".into()), dst: "$s".into() })), I::Null);
            let second = fold(Arg::Stream("$s".into()), "j", seq(seq(call(vp2, "visit2", vec![var("j")], Out::None), grow), I::Next("j".into())));
            push(vec!["STREAM", "mix", "two-folds-second-appends", &pn, vp1, vp2], seq(writers(), seq(first, second)));
        }
        // M11: a whole canonical stream copied into a scalar and handed to a service on another peer
        for (cp, op) in [("A", "B"), ("B", "A"), ("B", "C")] {
            if level == 0 && cp == "B" && op == "C" && p1 != "A" {
                continue;
            }
            push(
                vec!["STREAM", "mix", "canon-copied-to-scalar", &pn, cp, op],
                seq(writers(), seq(canon(cp, "$s", "#cn"), seq(I::Ap { src: Arg::Canon("#cn".into()), dst: "whole".into() }, call(op, "obs", vec![var("whole")], sc("o"))))),
            );
        }
        // M12: the fold body fails (uncaught, before `next`) on the value written by f2; a stream fold swallows the
        // failure and goes on with the next generation, whose sub-trace must stay separate from the failed one's
        for vp in ["A", "B"] {
            if level == 0 && vp == "B" && p1 != "A" {
                continue;
            }
            let body = seq(call(vp, "seen", vec![var("i")], Out::None), seq(I::Mismatch(Arg::Lens("i".into(), ".f".into()), Arg::Str("f2".into()), Box::new(I::Null)), I::Next("i".into())));
            push(vec!["STREAM", "mix", "fold-body-fails-on-one-value", &pn, vp], seq(par(writers(), call("C", "f3", vec![], st("$s"))), fold(Arg::Stream("$s".into()), "i", body)));
        }
        // M8: par/next body with a last instruction
        push(
            vec!["STREAM", "mix", "par-next-with-last", &pn],
            seq(
                writers(),
                I::Fold { iterable: Arg::Stream("$s".into()), iter: "i".into(), body: Box::new(par(call(p2, "visit", vec![var("i")], Out::None), I::Next("i".into()))), last: Some(Box::new(call(p1, "last", vec![], Out::None))) },
            ),
        );
    }
    // M6: fold over a canonical stream map
    for (p1, p2) in pairs.iter().copied() {
        let ins = |peer: &str, idx: usize, key: &str| seq(call(peer, &format!("f{idx}"), vec![], sc(&format!("v{idx}"))), I::ApMap { key: Arg::Str(key.into()), value: var(&format!("v{idx}")), map: "%m".into() });
        for keys in [("k1", "k2"), ("k1", "k1")] {
            push(
                vec!["STREAM", "mix", "fold-over-canon-map", &format!("{p1}{p2}"), keys.1],
                seq(par(ins(p1, 1, keys.0), ins(p2, 2, keys.1)), seq(canon("A", "%m", "#%c"), fold(Arg::CanonMap("#%c".into()), "kv", seq(call("B", "visit", vec![var("kv")], Out::None), I::Next("kv".into()))))),
            );
        }
    }
    out
}

/// Recursive stream with a variable call target: every value names the peer to ask for the next hop, so the
/// particle walks the plan (a word over A, B, C, possibly visiting a peer again) while the fold over $s runs.
pub fn route_family(level: u32) -> Vec<Script> {
    let mut out = vec![];
    let plans: Vec<&str> = if level == 0 { vec!["AB", "ABC", "ABA", "ABCA", "ABAB"] } else { vec!["AB", "BA", "ABC", "ABA", "BAB", "ABCA", "ABAB", "ABCB", "ABCAB", "ABCABC", "AABB"] };
    for plan in plans {
        let f = format!("route{plan}");
        let hop = I::Call { peer: PeerRef::Lens("hop".into(), ".peer".into()), svc: "s".into(), func: f.clone(), args: vec![var("hop")], out: st("$s") };
        let step = xor(I::Mismatch(Arg::Lens("hop".into(), ".done".into()), Arg::Bool(true), Box::new(hop)), I::Null);
        let ast = seq(call("A", &f, vec![], st("$s")), fold(Arg::Stream("$s".into()), "hop", seq(step, I::Next("hop".into()))));
        out.push(Script { family: "STREAM".into(), name: sname(&["STREAM", "route", plan]), ast, peers: peers3() });
    }
    out
}

// ---------------------------------------------------------------------------------------------
// MAP

pub fn map_family(level: u32) -> Vec<Script> {
    let mut out = vec![];
    for pa in peer_assignments(2) {
        if level == 0 && !(pa == ["A", "B"] || pa == ["B", "C"] || pa == ["B", "B"]) {
            continue;
        }
        // two keyed inserts on different peers: values come from calls, keys are literals / numbers
        let ins = |peer: &str, idx: usize, key: Arg| {
            seq(call(peer, &format!("f{idx}"), vec![], sc(&format!("v{idx}"))), I::ApMap { key, value: var(&format!("v{idx}")), map: "%m".into() })
        };
        for keys in [("k1", "k2"), ("k1", "k1")] {
            for layout in ["par", "seq"] {
                let w1 = ins(pa[0], 1, Arg::Str(keys.0.into()));
                let w2 = ins(pa[1], 2, Arg::Str(keys.1.into()));
                let ws = if layout == "par" { par(w1, w2) } else { seq(w1, w2) };
                let consumers: Vec<(&str, I)> = vec![
                    ("canonmap-obs", seq(canon("A", "%m", "#%c"), call("B", "obs", vec![Arg::CanonMap("#%c".into())], sc("o")))),
                    ("canonmap-key", seq(canon("B", "%m", "#%c"), call("A", "obs", vec![Arg::CanonMapLens("#%c".into(), ".k1".into())], sc("o")))),
                    ("canon-scalar", seq(canon("A", "%m", "sc"), call("B", "obs", vec![var("sc")], sc("o")))),
                    ("fold-map", fold(Arg::StreamMap("%m".into()), "kv", seq(call("A", "visit", vec![Arg::Lens("kv".into(), ".key".into()), Arg::Lens("kv".into(), ".value".into())], Out::None), I::Next("kv".into())))),
                    ("fold-map-par", fold(Arg::StreamMap("%m".into()), "kv", par(call("B", "visit", vec![var("kv")], Out::None), I::Next("kv".into())))),
                ];
                for (cn, c) in consumers {
                    out.push(Script {
                        family: "MAP".into(),
                        name: sname(&["MAP", &pa.join(""), keys.1, layout, cn]),
                        ast: seq(ws.clone(), c),
                        peers: peers3(),
                    });
                }
            }
        }
    }
    // keys of different types that print alike: the string "1" and the number 1 (and a third, plain key)
    for (cn, c) in [
        ("canon-scalar", seq(canon("A", "%m", "sc"), call("B", "obs", vec![var("sc")], sc("o")))),
        ("canonmap-obs", seq(canon("A", "%m", "#%c"), call("B", "obs", vec![Arg::CanonMap("#%c".into())], sc("o")))),
        ("canonmap-key", seq(canon("A", "%m", "#%c"), call("B", "obs", vec![Arg::CanonMapLens("#%c".into(), ".[1]".into())], sc("o")))),
    ] {
        let ws = seq(
            seq(call("A", "f1", vec![], sc("v1")), I::ApMap { key: Arg::Str("1".into()), value: var("v1"), map: "%m".into() }),
            seq(seq(call("B", "f2", vec![], sc("v2")), I::ApMap { key: Arg::Num(1), value: var("v2"), map: "%m".into() }), seq(call("A", "f3", vec![], sc("v3")), I::ApMap { key: Arg::Str("k".into()), value: var("v3"), map: "%m".into() })),
        );
        out.push(Script { family: "MAP".into(), name: sname(&["MAP", "ABA", "string-1-and-number-1", "seq", cn]), ast: seq(ws, c), peers: peers3() });
    }
    out
}

// ---------------------------------------------------------------------------------------------
// ERR: one failing instruction of each kind, in each context, caught / uncaught

/// (kind name, instruction that fails with a catchable error when executed on peer `p`)
pub fn failing_kinds(p: &str) -> Vec<(&'static str, I)> {
    let x = |f: &str| call(p, f, vec![], sc("x"));
    vec![
        ("service-error", call(p, "fail1", vec![], Out::None)),
        ("service-error-scalar-out", call(p, "fail2", vec![], sc("y"))),
        ("non-json-result", call(p, "bad1", vec![], sc("y"))),
        ("fail-literal", I::Fail(FailArg::Lit(1337, "user message".into()))),
        ("fail-scalar", seq(call(p, "errobj1", vec![], sc("e")), I::Fail(FailArg::Arg(var("e"))))),
        ("fail-scalar-invalid", seq(x("f1"), I::Fail(FailArg::Arg(var("x"))))),
        ("fail-error-rebubble", xor(call(p, "fail3", vec![], Out::None), I::Fail(FailArg::Arg(Arg::Error(None))))),
        ("fail-last-error-rebubble", xor(call(p, "fail4", vec![], Out::None), I::Fail(FailArg::Arg(Arg::LastError)))),
        ("match", I::Match(Arg::Num(1), Arg::Num(2), Box::new(I::Null))),
        ("mismatch", I::Mismatch(Arg::Num(1), Arg::Num(1), Box::new(I::Null))),
        ("lens-missing-field", seq(x("f1"), call(p, "g", vec![Arg::Lens("x".into(), ".nope".into())], Out::None))),
        ("lens-wrong-type", seq(x("f1"), call(p, "g", vec![Arg::Lens("x".into(), ".p.[0]".into())], Out::None))),
        ("lens-index-out-of-range", seq(x("f1"), call(p, "g", vec![Arg::Lens("x".into(), ".a.[5]".into())], Out::None))),
        ("fold-non-array", seq(x("f1"), fold(var("x"), "it", I::Null))),
        ("non-string-call-target", seq(call(p, "num1", vec![], sc("n")), I::Call { peer: PeerRef::Var("n".into()), svc: "s".into(), func: "g".into(), args: vec![], out: Out::None })),
        ("length-of-non-array", seq(x("f1"), call(p, "g", vec![Arg::Raw("x.length".into())], Out::None))),
        ("ap-lens-missing", seq(x("f1"), I::Ap { src: Arg::Lens("x".into(), ".nope".into()), dst: "z".into() })),
    ]
}

pub fn handler(p: &str) -> I {
    call(p, "h", vec![Arg::Error(Some(".error_code".into())), Arg::Error(Some(".message".into()))], Out::None)
}

/// contexts: (name, builder(F) -> script)
pub fn err_contexts() -> Vec<(&'static str, fn(I) -> I)> {
    vec![
        ("top", |f| f),
        ("seq-left", |f| seq(f, call("A", "after", vec![], Out::None))),
        ("seq-right", |f| seq(call("A", "before", vec![], sc("b")), f)),
        ("par-left", |f| par(f, call("B", "other", vec![], Out::None))),
        ("par-right", |f| par(call("B", "other", vec![], Out::None), f)),
        ("fold-body", |f| seq(call("A", "arr0", vec![], sc("xs")), fold(var("xs"), "k", seq(new("x", new("y", new("e", new("n", new("z", f))))), I::Next("k".into()))))),
        ("new-body", |f| new("$z", f)),
        ("nested-xor", |f| xor(xor(f, I::Fail(FailArg::Arg(Arg::Error(None)))), I::Fail(FailArg::Arg(Arg::Error(None))))),
        // a call that is still waiting for a value (a join) runs in a sibling par branch before / after the failure
        ("par-after-waiting-join", |f| par(par(call("B", "slow", vec![], sc("q")), par(call("A", "ga", vec![var("q")], Out::None), call("B", "gb", vec![var("q")], Out::None))), f)),
        // the failing instruction comes after a fire-and-forget call to another peer (`co on B`)
        ("after-fire-and-forget", |f| seq(par(call("B", "other", vec![], Out::None), I::Null), f)),
        // a value was appended to a global stream earlier in the very run that ends with the failure
        ("after-stream-ap", |f| seq(I::Ap { src: Arg::Str("v".into()), dst: "$g".into() }, f)),
        ("after-stream-call", |f| seq(call("A", "w", vec![], st("$g")), f)),
        // an earlier xor caught a failure and its handler contained a fire-and-forget call that failed as well (the par
        // swallows that second failure); then the instruction under test fails
        ("after-handler-with-swallowed-failure", |f| seq(xor(call("A", "failx", vec![], Out::None), par(call("A", "faily", vec![], Out::None), I::Null)), f)),
        // a failure swallowed by a par with no xor around it, earlier in the run
        ("after-failure-swallowed-by-par", |f| seq(par(call("A", "failz", vec![], Out::None), I::Null), f)),
        ("par-before-waiting-join", |f| par(f, par(call("B", "slow", vec![], sc("q")), par(call("A", "ga", vec![var("q")], Out::None), call("B", "gb", vec![var("q")], Out::None))))),
    ]
}

#[derive(Clone, Copy, PartialEq, Eq, Debug)]
pub enum Catch {
    Uncaught,
    Inner,
    Outer,
}

pub fn err_family(level: u32) -> Vec<Script> {
    let mut out = vec![];
    let peers: Vec<String> = vec!["A".into(), "B".into()];
    for fp in ["A", "B"] {
        for (kname, _) in failing_kinds(fp) {
            for (cname, cf) in err_contexts() {
                for catch in [Catch::Uncaught, Catch::Inner, Catch::Outer] {
                    if level == 0 && fp == "B" && !(cname == "top" || cname == "par-left" || cname == "seq-right") {
                        continue;
                    }
                    let f = failing_kinds(fp).into_iter().find(|(k, _)| *k == kname).unwrap().1;
                    let hp = if fp == "A" { "B" } else { "A" };
                    let ast = match catch {
                        Catch::Uncaught => cf(f),
                        Catch::Inner => cf(xor(f, handler(hp))),
                        Catch::Outer => xor(cf(f), handler(hp)),
                    };
                    out.push(Script {
                        family: "ERR".into(),
                        name: sname(&["ERR", kname, cname, fp, &format!("{catch:?}")]),
                        ast,
                        peers: peers.clone(),
                    });
                    // the handler on the failing peer itself: after the catch nothing else routes the particle
                    // to the peer the failed branch had already sent a request to
                    if cname == "after-fire-and-forget" && catch == Catch::Outer {
                        let f = failing_kinds(fp).into_iter().find(|(k, _)| *k == kname).unwrap().1;
                        out.push(Script { family: "ERR".into(), name: sname(&["ERR", kname, cname, fp, "OuterSelf"]), ast: xor(cf(f), handler(fp)), peers: peers.clone() });
                    }
                }
            }
        }
    }
    // an uncatchable script error: a second call writes the scalar `x` again (ShadowingIsNotAllowed when its
    // result is applied). C02: such a run returns the previous data, no next peers, no requests.
    for (p, q) in [("A", "A"), ("A", "B"), ("B", "A")] {
        let base = || seq(call(p, "f1", vec![], sc("x")), call(q, "f2", vec![], sc("x")));
        let ctxs: Vec<(&str, I)> = vec![
            ("top", base()),
            ("seq-right", seq(call("A", "before", vec![], sc("b")), base())),
            ("par-right", par(call("B", "other", vec![], Out::None), base())),
            ("xor-left", xor(base(), handler("A"))),
        ];
        for (cname, ast) in ctxs {
            if level == 0 && p == "B" && cname != "top" {
                continue;
            }
            out.push(Script { family: "ERR".into(), name: sname(&["ERR", "uncatchable-shadowing", cname, p, q]), ast, peers: peers.clone() });
        }
    }
    out
}

/// C18: xors whose left branch succeeds or is still waiting (and one that holds an already caught failure):
/// the handler in the right branch must never be requested.
pub fn err_nofail_family() -> Vec<Script> {
    let peers: Vec<String> = vec!["A".into(), "B".into()];
    let ok = |p: &str, f: &str| call(p, f, vec![], Out::None);
    let v: Vec<(&str, I)> = vec![
        ("local-call", xor(ok("A", "ok1"), handler("B"))),
        ("remote-call", xor(ok("B", "ok1"), handler("A"))),
        ("waiting-for-remote-value", xor(seq(call("B", "f1", vec![], sc("x")), call("A", "g", vec![var("x")], Out::None)), handler("B"))),
        ("never", xor(I::Never, handler("B"))),
        ("null", xor(I::Null, handler("B"))),
        ("match-true", xor(I::Match(Arg::Num(1), Arg::Num(1), Box::new(ok("A", "ok1"))), handler("B"))),
        ("mismatch-true", xor(I::Mismatch(Arg::Num(1), Arg::Num(2), Box::new(ok("B", "ok1"))), handler("A"))),
        ("par", xor(par(ok("B", "f1"), ok("A", "f2")), handler("A"))),
        ("fold", xor(seq(call("A", "arr0", vec![], sc("xs")), fold(var("xs"), "it", seq(call("B", "f", vec![var("it")], Out::None), I::Next("it".into())))), handler("A"))),
        ("waiting-for-canon", xor(seq(call("B", "f1", vec![], st("$s")), seq(canon("A", "$s", "#cs"), call("A", "g", vec![Arg::Canon("#cs".into())], Out::None))), handler("B"))),
        ("inner-xor-catches", xor(xor(ok("A", "fail1"), ok("A", "ok1")), handler("B"))),
        ("new-scope", xor(new("$z", ok("A", "ok1")), handler("B"))),
        ("after-an-earlier-caught-failure", seq(xor(ok("A", "fail1"), I::Null), xor(ok("A", "ok2"), handler("B")))),
        ("after-an-earlier-caught-failure-remote", seq(xor(ok("B", "fail1"), I::Null), xor(seq(ok("A", "ok2"), ok("B", "ok3")), handler("A")))),
    ];
    v.into_iter().map(|(n, ast)| Script { family: "ERR".into(), name: sname(&["ERR", "no-failure", n]), ast, peers: peers.clone() }).collect()
}

// ---------------------------------------------------------------------------------------------
// SEQ_k: the fragment of C16

#[derive(Clone, Debug)]
pub enum Shape {
    Leaf,
    Node(char, Box<Shape>, Box<Shape>),
}

pub fn shapes(k: usize) -> Vec<Shape> {
    if k == 1 {
        return vec![Shape::Leaf];
    }
    let mut out = vec![];
    for l in 1..k {
        for a in shapes(l) {
            for b in shapes(k - l) {
                for op in ['s', 'p', 'x'] {
                    out.push(Shape::Node(op, Box::new(a.clone()), Box::new(b.clone())));
                }
            }
        }
    }
    out
}

fn shape_name(s: &Shape) -> String {
    match s {
        Shape::Leaf => "c".into(),
        Shape::Node(op, a, b) => format!("{op}({}{})", shape_name(a), shape_name(b)),
    }
}

/// Argument wiring of a call leaf: n = none, r = most recent variable, l = most recent under a lens,
/// a = most recent re-bound through `ap` with a lens and then used under another lens, t = literal + init peer
#[derive(Clone, Copy, PartialEq, Eq, Debug)]
pub enum Wire {
    None,
    Recent,
    Lens,
    ApLens,
    Lit,
}

#[derive(Clone, Debug)]
pub struct LeafSpec {
    pub peer: PeerRef,
    pub func: String,
    pub wire: Wire,
    pub extra_args: Vec<Arg>,
    /// replace the leaf by (null) / (never)
    pub replace: Option<I>,
    /// wrap the leaf: 'm' match-true, 'x' xor(match-false, null)
    pub guard: Option<char>,
}

fn build(shape: &Shape, leaves: &[LeafSpec], idx: &mut usize) -> I {
    match shape {
        Shape::Leaf => {
            let i = *idx;
            *idx += 1;
            let l = &leaves[i];
            if let Some(r) = &l.replace {
                return r.clone();
            }
            let n = i + 1;
            let prev = format!("v{i}");
            let mut pre: Option<I> = None;
            let mut args: Vec<Arg> = match (l.wire, i) {
                (Wire::None, _) | (_, 0) => vec![],
                (Wire::Recent, _) => vec![Arg::Var(prev.clone())],
                (Wire::Lens, _) => vec![Arg::Lens(prev.clone(), ".f".into())],
                (Wire::ApLens, _) => {
                    pre = Some(I::Ap { src: Arg::Lens(prev.clone(), ".a".into()), dst: format!("w{n}") });
                    vec![Arg::Var(format!("w{n}")), Arg::Lens(prev.clone(), ".p".into())]
                }
                (Wire::Lit, _) => vec![Arg::Str(format!("lit{n}")), Arg::InitPeer, Arg::Var(prev.clone())],
            };
            args.extend(l.extra_args.iter().cloned());
            let c = I::Call { peer: l.peer.clone(), svc: "s".into(), func: l.func.clone(), args, out: sc(&format!("v{n}")) };
            let c = match pre {
                Some(p) => seq(p, c),
                None => c,
            };
            match (l.guard, i) {
                (Some('m'), i) if i > 0 => I::Match(Arg::Lens(prev.clone(), ".p".into()), Arg::Lens(prev, ".p".into()), Box::new(c)),
                (Some('x'), i) if i > 0 => xor(I::Match(Arg::Lens(prev, ".f".into()), Arg::Str("nope".into()), Box::new(c)), I::Null),
                (Some('n'), i) if i > 0 => xor(I::Mismatch(Arg::Lens(prev, ".f".into()), Arg::Str("nope".into()), Box::new(c)), I::Null),
                _ => c,
            }
        }
        Shape::Node(op, a, b) => {
            let l = build(a, leaves, idx);
            let r = build(b, leaves, idx);
            match op {
                's' => seq(l, r),
                'p' => par(l, r),
                _ => xor(l, r),
            }
        }
    }
}

/// For each xor node: index of the last leaf of its left subtree that is reachable from the xor without
/// crossing a par (the C16 side condition), if any.
fn fail_sites(shape: &Shape) -> Vec<usize> {
    fn leaves(s: &Shape) -> usize {
        match s {
            Shape::Leaf => 1,
            Shape::Node(_, a, b) => leaves(a) + leaves(b),
        }
    }
    // last leaf (in execution order) of `s` not under a par, relative to `s`
    fn last_seq_leaf(s: &Shape, base: usize) -> Option<usize> {
        match s {
            Shape::Leaf => Some(base),
            Shape::Node('p', _, _) => None,
            Shape::Node('s', a, b) => last_seq_leaf(b, base + leaves(a)).or_else(|| last_seq_leaf(a, base)),
            // nested xor: a failure in its left branch is caught by the inner xor; its right branch bubbles
            Shape::Node(_, a, b) => last_seq_leaf(b, base + leaves(a)),
        }
    }
    fn go(s: &Shape, base: usize, out: &mut Vec<usize>) {
        if let Shape::Node(op, a, b) = s {
            if *op == 'x' {
                if let Some(i) = last_seq_leaf(a, base) {
                    out.push(i);
                }
            }
            go(a, base, out);
            go(b, base + leaves(a), out);
        }
    }
    let mut out = vec![];
    go(shape, 0, &mut out);
    out.sort();
    out.dedup();
    out
}

fn leafspecs(k: usize, pa: &[&str], wires: &[Wire]) -> Vec<LeafSpec> {
    (0..k)
        .map(|i| LeafSpec { peer: PeerRef::Name(pa[i].into()), func: format!("f{}", i + 1), wire: wires[i], extra_args: vec![], replace: None, guard: None })
        .collect()
}

fn wire_menus(k: usize, menu: &[Wire]) -> Vec<Vec<Wire>> {
    // first leaf has no variable to use
    let mut out: Vec<Vec<Wire>> = vec![vec![Wire::None]];
    for _ in 1..k {
        let mut next = vec![];
        for v in &out {
            for w in menu {
                let mut x = v.clone();
                x.push(*w);
                next.push(x);
            }
        }
        out = next;
    }
    out
}

pub fn seq_family(kmax: usize, level: u32) -> Vec<Script> {
    let mut out = vec![];
    let peers = peers3();
    let mut push = |name: String, ast: I| out.push(Script { family: "SEQ".into(), name, ast, peers: peers.clone() });
    for k in 1..=kmax {
        let menu: Vec<Wire> = if level == 0 || k >= 4 { vec![Wire::None, Wire::Recent] } else { vec![Wire::None, Wire::Recent, Wire::Lens] };
        for shape in shapes(k) {
            let sn = shape_name(&shape);
            let fsites = fail_sites(&shape);
            for pa in peer_assignments(k) {
                if k >= 4 && level == 0 {
                    continue;
                }
                for wires in wire_menus(k, &menu) {
                    let wn: String = wires.iter().map(|w| format!("{w:?}").chars().next().unwrap()).collect();
                    let base = leafspecs(k, &pa, &wires);
                    push(sname(&["SEQ", &format!("k{k}"), &sn, &pa.join(""), &wn, "base"]), build(&shape, &base, &mut 0));
                    // one failing call per xor (service error caught with no par in between)
                    for fs in &fsites {
                        let mut l = base.clone();
                        l[*fs].func = format!("fail{}", fs + 1);
                        push(sname(&["SEQ", &format!("k{k}"), &sn, &pa.join(""), &wn, &format!("fail{}", fs + 1)]), build(&shape, &l, &mut 0));
                    }
                }
                // variants on the all-recent wiring only
                let wires: Vec<Wire> = (0..k).map(|i| if i == 0 { Wire::None } else { Wire::Recent }).collect();
                let base = leafspecs(k, &pa, &wires);
                if k >= 2 {
                    for i in 0..k {
                        // richer argument forms
                        for w in [Wire::ApLens, Wire::Lit] {
                            if i == 0 {
                                continue;
                            }
                            let mut l = base.clone();
                            l[i].wire = w;
                            push(sname(&["SEQ", &format!("k{k}"), &sn, &pa.join(""), &format!("{w:?}{i}")]), build(&shape, &l, &mut 0));
                        }
                        // guards
                        for g in ['m', 'x', 'n'] {
                            if i == 0 {
                                continue;
                            }
                            let mut l = base.clone();
                            l[i].guard = Some(g);
                            push(sname(&["SEQ", &format!("k{k}"), &sn, &pa.join(""), &format!("guard-{g}{i}")]), build(&shape, &l, &mut 0));
                        }
                        // null / never leaves
                        for (rn, r) in [("null", I::Null), ("never", I::Never)] {
                            let mut l = base.clone();
                            l[i].replace = Some(r);
                            push(sname(&["SEQ", &format!("k{k}"), &sn, &pa.join(""), &format!("{rn}{i}")]), build(&shape, &l, &mut 0));
                        }
                        // call targets: variable, lens, init peer
                        let target_peer = pa[i];
                        let mut l = base.clone();
                        l[i].peer = PeerRef::Var("tgt".into());
                        let ast = seq(call("A", &format!("peer{target_peer}_t"), vec![], sc("tgt")), build(&shape, &l, &mut 0));
                        push(sname(&["SEQ", &format!("k{k}"), &sn, &pa.join(""), &format!("target-var{i}")]), ast);
                        let mut l = base.clone();
                        l[i].peer = PeerRef::Lens("pt".into(), format!(".{target_peer}"));
                        let ast = seq(call("A", "ptab", vec![], sc("pt")), build(&shape, &l, &mut 0));
                        push(sname(&["SEQ", &format!("k{k}"), &sn, &pa.join(""), &format!("target-lens{i}")]), ast);
                        if target_peer == "A" {
                            let mut l = base.clone();
                            l[i].peer = PeerRef::InitPeer;
                            push(sname(&["SEQ", &format!("k{k}"), &sn, &pa.join(""), &format!("target-init{i}")]), build(&shape, &l, &mut 0));
                        }
                    }
                }
                // wrappers: new, scalar fold with next in seq-last / seq-first / par position
                if k <= 3 {
                    // a new-scoped scalar that is set first inside its scope and used by every call
                    let mut l = base.clone();
                    for x in l.iter_mut() {
                        x.extra_args = vec![var("nz")];
                    }
                    let ast = new("nz", seq(I::Ap { src: Arg::Str("z".into()), dst: "nz".into() }, build(&shape, &l, &mut 0)));
                    push(sname(&["SEQ", &format!("k{k}"), &sn, &pa.join(""), "new-nz"]), ast);
                    for (fname, pos) in [("fold-seq-last", 0), ("fold-seq-first", 1), ("fold-par", 2), ("fold-par-first", 3)] {
                        let mut l = base.clone();
                        for x in l.iter_mut() {
                            x.extra_args = vec![var("it")];
                        }
                        let body = build(&shape, &l, &mut 0);
                        let nx = I::Next("it".into());
                        let body = match pos {
                            0 => seq(body, nx),
                            1 => seq(nx, body),
                            2 => par(body, nx),
                            _ => par(nx, body),
                        };
                        let ast = seq(call("A", "arr0", vec![], sc("xs")), fold(var("xs"), "it", body));
                        push(sname(&["SEQ", &format!("k{k}"), &sn, &pa.join(""), fname]), ast);
                    }
                }
            }
        }
    }
    out
}
