//! Script families (DESIGN.md section 5): finite grammars enumerated completely up to a size bound.

use crate::script::*;

fn peers3() -> Vec<String> {
    vec!["A".into(), "B".into(), "C".into()]
}

/// All sequences of length n over {A,B,C} modulo renaming of B and C (A is the init peer and stays).
pub fn peer_assignments(n: usize) -> Vec<Vec<&'static str>> {
    let mut out = vec![];
    let names = ["A", "B", "C"];
    let total = 3usize.pow(n as u32);
    for code in 0..total {
        let mut v = vec![];
        let mut c = code;
        for _ in 0..n {
            v.push(names[c % 3]);
            c /= 3;
        }
        // canonical iff the first non-A peer is B (C may only appear after a B)
        let first_b = v.iter().position(|x| *x == "B");
        let first_c = v.iter().position(|x| *x == "C");
        let canonical = match (first_b, first_c) {
            (_, None) => true,
            (None, Some(_)) => false,
            (Some(b), Some(c)) => b < c,
        };
        if canonical {
            out.push(v);
        }
    }
    out
}

fn sname(parts: &[&str]) -> String {
    parts.join("/")
}

// ---------------------------------------------------------------------------------------------
// STREAM

fn writer(kind: char, peer: &str, idx: usize, stream: &str) -> I {
    match kind {
        'c' => call(peer, &format!("f{idx}"), vec![], st(stream)),
        // an ap executes wherever the particle is; value distinct per site
        _ => I::Ap { src: Arg::Str(format!("lit{idx}")), dst: stream.into() },
    }
}

fn writer_layouts(n: usize) -> Vec<(&'static str, fn(Vec<I>) -> I)> {
    fn l_par(v: Vec<I>) -> I {
        pars(v)
    }
    fn l_seq(v: Vec<I>) -> I {
        seqs(v)
    }
    fn l_seq_par(mut v: Vec<I>) -> I {
        let first = v.remove(0);
        seq(first, pars(v))
    }
    fn l_par_seq(mut v: Vec<I>) -> I {
        let first = v.remove(0);
        par(first, seqs(v))
    }
    let mut out: Vec<(&'static str, fn(Vec<I>) -> I)> = vec![("par", l_par), ("seq", l_seq)];
    if n >= 3 {
        out.push(("seqpar", l_seq_par));
        out.push(("parseq", l_par_seq));
    }
    if n == 1 {
        out.truncate(1);
    }
    out
}

/// Consumers of `$s`; each gets the list of peers for its own instructions.
fn stream_consumers(stream: &str) -> Vec<(String, Box<dyn Fn(&[&str]) -> I>, usize)> {
    let s = stream.to_string();
    let mut out: Vec<(String, Box<dyn Fn(&[&str]) -> I>, usize)> = vec![];
    {
        let s = s.clone();
        out.push((
            "canon-obs".into(),
            Box::new(move |p: &[&str]| seq(canon(p[0], &s, "#cn"), call(p[1], "obs", vec![Arg::Canon("#cn".into())], sc("o")))),
            2,
        ));
    }
    {
        let s = s.clone();
        out.push((
            "canon-obs-obs".into(),
            Box::new(move |p: &[&str]| {
                seqs(vec![
                    canon(p[0], &s, "#cn"),
                    par(call(p[1], "obs", vec![Arg::Canon("#cn".into())], sc("o")), call(p[0], "obs2", vec![Arg::CanonLens("#cn".into(), ".[0]".into())], sc("o2"))),
                ])
            }),
            2,
        ));
    }
    let bodies: Vec<(&str, fn(&str) -> I)> = vec![
        ("call", |p| call(p, "visit", vec![var("i")], Out::None)),
        ("seq-call-next", |p| seq(call(p, "visit", vec![var("i")], Out::None), I::Next("i".into()))),
        ("par-call-next", |p| par(call(p, "visit", vec![var("i")], Out::None), I::Next("i".into()))),
        ("seq-ap-next", |_p| seq(I::Ap { src: var("i"), dst: "$t".into() }, I::Next("i".into()))),
        ("seq-callt-next", |p| seq(call(p, "g", vec![var("i")], st("$t")), I::Next("i".into()))),
        ("xor-fail-next", |p| {
            seq(xor(call(p, "failv", vec![var("i")], Out::None), call(p, "h", vec![var("i")], Out::None)), I::Next("i".into()))
        }),
        ("par-par-next", |p| {
            par(par(call(p, "visit", vec![var("i")], Out::None), call("A", "visit2", vec![var("i")], Out::None)), I::Next("i".into()))
        }),
    ];
    for (bn, bf) in bodies {
        let s2 = s.clone();
        out.push((format!("fold-{bn}"), Box::new(move |p: &[&str]| fold(Arg::Stream(s2.clone()), "i", bf(p[0]))), 1));
    }
    {
        let s2 = s.clone();
        out.push((
            "fold-last".into(),
            Box::new(move |p: &[&str]| I::Fold {
                iterable: Arg::Stream(s2.clone()),
                iter: "i".into(),
                body: Box::new(seq(call(p[0], "visit", vec![var("i")], Out::None), I::Next("i".into()))),
                last: Some(Box::new(call(p[0], "last", vec![], Out::None))),
            }),
            1,
        ));
    }
    {
        // fold then local observation on the folding peer (C13 observation point)
        let s2 = s.clone();
        out.push((
            "fold-then-canon".into(),
            Box::new(move |p: &[&str]| {
                seq(
                    fold(Arg::Stream(s2.clone()), "i", seq(call(p[0], "g", vec![var("i")], st("$t")), I::Next("i".into()))),
                    seq(canon(p[1], "$t", "#t"), call(p[1], "obs", vec![Arg::Canon("#t".into())], sc("o"))),
                )
            }),
            2,
        ));
    }
    {
        // par-in-fold with a fold-in-par next to it
        let s2 = s.clone();
        out.push((
            "par-fold-fold".into(),
            Box::new(move |p: &[&str]| {
                par(
                    fold(Arg::Stream(s2.clone()), "i", par(call(p[0], "visit", vec![var("i")], Out::None), I::Next("i".into()))),
                    fold(Arg::Stream(s2.clone()), "j", seq(call(p[1], "visitj", vec![var("j")], Out::None), I::Next("j".into()))),
                )
            }),
            2,
        ));
    }
    out
}

pub fn stream_family(level: u32) -> Vec<Script> {
    let mut out = vec![];
    let cons = stream_consumers("$s");
    for n in 1..=3usize {
        for (lname, lf) in writer_layouts(n) {
            for pa in peer_assignments(n) {
                // level 0: a representative subset of peer assignments
                if level == 0 && n == 3 && !(pa == ["A", "B", "C"] || pa == ["B", "C", "B"] || pa == ["B", "B", "C"]) {
                    continue;
                }
                if level == 0 && n == 2 && !(pa == ["A", "B"] || pa == ["B", "C"] || pa == ["B", "B"]) {
                    continue;
                }
                for kinds in ["c", "a"] {
                    // "a": the last writer is an ap instead of a call
                    if kinds == "a" && (n == 1 || level == 0 && lname != "par") {
                        continue;
                    }
                    let ws: Vec<I> = (0..n)
                        .map(|i| writer(if kinds == "a" && i == n - 1 { 'a' } else { 'c' }, pa[i], i + 1, "$s"))
                        .collect();
                    let wtree = lf(ws);
                    for (cname, cf, npeers) in &cons {
                        let cps: Vec<Vec<&str>> = if *npeers == 1 {
                            vec![vec!["A"], vec!["B"], vec!["C"]]
                        } else {
                            vec![vec!["A", "B"], vec!["B", "A"], vec!["B", "C"], vec!["A", "A"], vec!["C", "B"]]
                        };
                        for cp in cps {
                            if level == 0 && (cp == ["C"] || cp == ["C", "B"] || cp == ["A", "A"]) {
                                continue;
                            }
                            let ast = seq(wtree.clone(), cf(&cp));
                            out.push(Script {
                                family: "STREAM".into(),
                                name: sname(&["STREAM", &format!("w{n}"), lname, &pa.join(""), kinds, cname, &cp.join("")]),
                                ast,
                                peers: peers3(),
                            });
                        }
                    }
                }
            }
        }
    }
    // new-scoped stream: writers into $n inside (new $n ...), fold / canon inside the scope
    for pa in peer_assignments(2) {
        for inner in ["fold", "canon"] {
            for outer_fold in [false, true] {
                if level == 0 && !(pa == ["A", "B"] || pa == ["B", "C"]) {
                    continue;
                }
                let ws = par(call(pa[0], "f1", vec![], st("$n")), call(pa[1], "f2", vec![], st("$n")));
                let consumer = if inner == "fold" {
                    fold(Arg::Stream("$n".into()), "i", seq(call("A", "visit", vec![var("i")], Out::None), I::Next("i".into())))
                } else {
                    seq(canon("B", "$n", "#cn"), call("A", "obs", vec![Arg::Canon("#cn".into())], sc("o")))
                };
                let scoped = new("$n", seq(ws, consumer));
                let ast = if outer_fold {
                    // the scope is re-entered per iteration of a scalar fold: distinct stream instances
                    seq(
                        call("A", "arr0", vec![], sc("xs")),
                        fold(var("xs"), "k", seq(new("$n", seq(call(pa[0], "fk", vec![var("k")], st("$n")), seq(canon("A", "$n", "#cn"), call("B", "obs", vec![Arg::Canon("#cn".into()), var("k")], Out::None)))), I::Next("k".into()))),
                    )
                } else {
                    scoped
                };
                if outer_fold && inner == "canon" {
                    continue;
                }
                out.push(Script {
                    family: "STREAM".into(),
                    name: sname(&["STREAM", "new", &pa.join(""), inner, if outer_fold { "in-scalar-fold" } else { "top" }]),
                    ast,
                    peers: peers3(),
                });
            }
        }
    }
    // bounded recursive stream: the body appends to $s until the value's depth reaches 2
    for (p0, p1) in [("A", "B"), ("B", "C"), ("B", "A"), ("B", "B")] {
        for shape in ["seq", "par"] {
            if level == 0 && shape == "par" && p0 != "B" {
                continue;
            }
            let step = xor(I::Mismatch(Arg::Lens("i".into(), ".d".into()), Arg::Num(2), Box::new(call(p1, "rec", vec![var("i")], st("$s")))), I::Null);
            let body = if shape == "seq" { seq(step, I::Next("i".into())) } else { par(step, I::Next("i".into())) };
            let ast = seq(call(p0, "rec0", vec![], st("$s")), fold(Arg::Stream("$s".into()), "i", body));
            out.push(Script { family: "STREAM".into(), name: sname(&["STREAM", "recursive", p0, p1, shape]), ast, peers: peers3() });
        }
    }
    out
}

// ---------------------------------------------------------------------------------------------
// MAP

pub fn map_family(level: u32) -> Vec<Script> {
    let mut out = vec![];
    for pa in peer_assignments(2) {
        if level == 0 && !(pa == ["A", "B"] || pa == ["B", "C"] || pa == ["B", "B"]) {
            continue;
        }
        // two keyed inserts on different peers: values come from calls, keys are literals / numbers
        let ins = |peer: &str, idx: usize, key: Arg| {
            seq(call(peer, &format!("f{idx}"), vec![], sc(&format!("v{idx}"))), I::ApMap { key, value: var(&format!("v{idx}")), map: "%m".into() })
        };
        for keys in [("k1", "k2"), ("k1", "k1")] {
            for layout in ["par", "seq"] {
                let w1 = ins(pa[0], 1, Arg::Str(keys.0.into()));
                let w2 = ins(pa[1], 2, Arg::Str(keys.1.into()));
                let ws = if layout == "par" { par(w1, w2) } else { seq(w1, w2) };
                let consumers: Vec<(&str, I)> = vec![
                    ("canonmap-obs", seq(canon("A", "%m", "#%c"), call("B", "obs", vec![Arg::CanonMap("#%c".into())], sc("o")))),
                    ("canonmap-key", seq(canon("B", "%m", "#%c"), call("A", "obs", vec![Arg::CanonMapLens("#%c".into(), ".k1".into())], sc("o")))),
                    ("canon-scalar", seq(canon("A", "%m", "sc"), call("B", "obs", vec![var("sc")], sc("o")))),
                    ("fold-map", fold(Arg::StreamMap("%m".into()), "kv", seq(call("A", "visit", vec![Arg::Lens("kv".into(), ".key".into()), Arg::Lens("kv".into(), ".value".into())], Out::None), I::Next("kv".into())))),
                    ("fold-map-par", fold(Arg::StreamMap("%m".into()), "kv", par(call("B", "visit", vec![var("kv")], Out::None), I::Next("kv".into())))),
                ];
                for (cn, c) in consumers {
                    out.push(Script {
                        family: "MAP".into(),
                        name: sname(&["MAP", &pa.join(""), keys.1, layout, cn]),
                        ast: seq(ws.clone(), c),
                        peers: peers3(),
                    });
                }
            }
        }
    }
    out
}

// ---------------------------------------------------------------------------------------------
// ERR: one failing instruction of each kind, in each context, caught / uncaught

/// (kind name, instruction that fails with a catchable error when executed on peer `p`)
pub fn failing_kinds(p: &str) -> Vec<(&'static str, I)> {
    let x = |f: &str| call(p, f, vec![], sc("x"));
    vec![
        ("service-error", call(p, "fail1", vec![], Out::None)),
        ("service-error-scalar-out", call(p, "fail2", vec![], sc("y"))),
        ("non-json-result", call(p, "bad1", vec![], sc("y"))),
        ("fail-literal", I::Fail(FailArg::Lit(1337, "user message".into()))),
        ("fail-scalar", seq(call(p, "errobj1", vec![], sc("e")), I::Fail(FailArg::Arg(var("e"))))),
        ("fail-scalar-invalid", seq(x("f1"), I::Fail(FailArg::Arg(var("x"))))),
        ("fail-error-rebubble", xor(call(p, "fail3", vec![], Out::None), I::Fail(FailArg::Arg(Arg::Error(None))))),
        ("fail-last-error-rebubble", xor(call(p, "fail4", vec![], Out::None), I::Fail(FailArg::Arg(Arg::LastError)))),
        ("match", I::Match(Arg::Num(1), Arg::Num(2), Box::new(I::Null))),
        ("mismatch", I::Mismatch(Arg::Num(1), Arg::Num(1), Box::new(I::Null))),
        ("lens-missing-field", seq(x("f1"), call(p, "g", vec![Arg::Lens("x".into(), ".nope".into())], Out::None))),
        ("lens-wrong-type", seq(x("f1"), call(p, "g", vec![Arg::Lens("x".into(), ".p.[0]".into())], Out::None))),
        ("lens-index-out-of-range", seq(x("f1"), call(p, "g", vec![Arg::Lens("x".into(), ".a.[5]".into())], Out::None))),
        ("fold-non-array", seq(x("f1"), fold(var("x"), "it", I::Null))),
        ("non-string-call-target", seq(call(p, "num1", vec![], sc("n")), I::Call { peer: PeerRef::Var("n".into()), svc: "s".into(), func: "g".into(), args: vec![], out: Out::None })),
        ("length-of-non-array", seq(x("f1"), call(p, "g", vec![Arg::Raw("x.length".into())], Out::None))),
        ("ap-lens-missing", seq(x("f1"), I::Ap { src: Arg::Lens("x".into(), ".nope".into()), dst: "z".into() })),
    ]
}

pub fn handler(p: &str) -> I {
    call(p, "h", vec![Arg::Error(Some(".error_code".into())), Arg::Error(Some(".message".into()))], Out::None)
}

/// contexts: (name, builder(F) -> script)
pub fn err_contexts() -> Vec<(&'static str, fn(I) -> I)> {
    vec![
        ("top", |f| f),
        ("seq-left", |f| seq(f, call("A", "after", vec![], Out::None))),
        ("seq-right", |f| seq(call("A", "before", vec![], sc("b")), f)),
        ("par-left", |f| par(f, call("B", "other", vec![], Out::None))),
        ("par-right", |f| par(call("B", "other", vec![], Out::None), f)),
        ("fold-body", |f| seq(call("A", "arr0", vec![], sc("xs")), fold(var("xs"), "k", seq(new("x", new("y", new("e", new("n", new("z", f))))), I::Next("k".into()))))),
        ("new-body", |f| new("$z", f)),
        ("nested-xor", |f| xor(xor(f, I::Fail(FailArg::Arg(Arg::Error(None)))), I::Fail(FailArg::Arg(Arg::Error(None))))),
    ]
}

#[derive(Clone, Copy, PartialEq, Eq, Debug)]
pub enum Catch {
    Uncaught,
    Inner,
    Outer,
}

pub fn err_family(level: u32) -> Vec<Script> {
    let mut out = vec![];
    let peers: Vec<String> = vec!["A".into(), "B".into()];
    for fp in ["A", "B"] {
        for (kname, _) in failing_kinds(fp) {
            for (cname, cf) in err_contexts() {
                for catch in [Catch::Uncaught, Catch::Inner, Catch::Outer] {
                    if level == 0 && fp == "B" && !(cname == "top" || cname == "par-left" || cname == "seq-right") {
                        continue;
                    }
                    let f = failing_kinds(fp).into_iter().find(|(k, _)| *k == kname).unwrap().1;
                    let hp = if fp == "A" { "B" } else { "A" };
                    let ast = match catch {
                        Catch::Uncaught => cf(f),
                        Catch::Inner => cf(xor(f, handler(hp))),
                        Catch::Outer => xor(cf(f), handler(hp)),
                    };
                    out.push(Script {
                        family: "ERR".into(),
                        name: sname(&["ERR", kname, cname, fp, &format!("{catch:?}")]),
                        ast,
                        peers: peers.clone(),
                    });
                }
            }
        }
    }
    out
}
