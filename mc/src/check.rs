//! Check driver: runs an exploration/enumeration, writes evidence, matches violations against the
//! committed known-findings file, writes replay files, decides the exit code.

use crate::netmc::{self, Cfg, Found, Monitor, Stats, World};
use crate::script::Script;

use serde_json::{json, Map, Value};
use std::collections::{BTreeMap, BTreeSet};
use std::path::PathBuf;
use std::sync::atomic::{AtomicUsize, Ordering};
use std::sync::Mutex;

#[derive(Clone, Copy, PartialEq, Eq, Debug)]
pub enum Tier {
    Quick,
    Thorough,
}

impl Tier {
    pub fn name(&self) -> &'static str {
        match self {
            Tier::Quick => "quick",
            Tier::Thorough => "thorough",
        }
    }
}

pub fn verif_dir() -> PathBuf {
    std::env::var("VERIF_DIR").map(PathBuf::from).unwrap_or_else(|_| PathBuf::from("/verif"))
}

/// Where evidence/ and replays/ are written. Runs against anything but the repository itself (mutant
/// worktrees, `VERIF_REPO` set) must point this elsewhere so that the committed evidence always describes
/// a run on /repo; bin/check enforces that.
pub fn out_dir() -> PathBuf {
    std::env::var("VERIF_OUT_DIR").map(PathBuf::from).unwrap_or_else(|_| verif_dir())
}

#[derive(Clone, Debug)]
pub struct Violation {
    /// stable signature: cause tag of the monitor (what known findings are matched on)
    pub signature: String,
    pub description: String,
    /// everything needed to replay
    pub replay: Value,
}

pub struct Report {
    pub property: String,
    pub level: &'static str,
    pub coverage: Map<String, Value>,
    pub assumptions: Vec<String>,
    pub violations: Vec<Violation>,
    /// machinery problems (vacuous monitor, caps before anything was covered...): exit 2
    pub machinery_errors: Vec<String>,
}

impl Report {
    pub fn new(property: &str, level: &'static str) -> Report {
        Report { property: property.into(), level, coverage: Map::new(), assumptions: vec![], violations: vec![], machinery_errors: vec![] }
    }
    pub fn cov(&mut self, k: &str, v: Value) {
        self.coverage.insert(k.to_string(), v);
    }
}

pub struct KnownFinding {
    pub property: String,
    pub status: String,
    pub signature: String,
    pub description: String,
    /// if set, the entry covers only violations found on scripts whose name starts with this prefix
    pub script_prefix: Option<String>,
}

impl KnownFinding {
    pub fn covers(&self, property: &str, v: &Violation) -> bool {
        self.property == property
            && self.status == "known"
            && self.signature == v.signature
            && match &self.script_prefix {
                None => true,
                Some(p) => v.description.starts_with(&format!("script {p}")),
            }
    }
}

pub fn load_known() -> Vec<KnownFinding> {
    let p = verif_dir().join("known_findings.json");
    let Ok(text) = std::fs::read_to_string(&p) else { return vec![] };
    let v: Value = serde_json::from_str(&text).unwrap_or(Value::Null);
    v["findings"]
        .as_array()
        .map(|a| {
            a.iter()
                .map(|f| KnownFinding {
                    property: f["property"].as_str().unwrap_or("").into(),
                    status: f["status"].as_str().unwrap_or("").into(),
                    signature: f["signature"].as_str().unwrap_or("").into(),
                    description: f["description"].as_str().unwrap_or("").into(),
                    script_prefix: f["script_prefix"].as_str().map(|s| s.to_string()),
                })
                .collect()
        })
        .unwrap_or_default()
}

/// Writes evidence + replay files, prints the verdict lines, returns the exit code.
pub fn finish(mut rep: Report, tier: Tier, t0: std::time::Instant) -> i32 {
    let dir = out_dir();
    let seed: i64 = std::env::var("VERIF_SEED").ok().and_then(|s| s.parse().ok()).unwrap_or(0);
    let known = load_known();
    let mut new_viol = 0;
    let mut lines = vec![];
    let mut seen: BTreeSet<String> = BTreeSet::new();
    let mut known_hits: Vec<String> = vec![];
    // a harness-side failure is never a verdict about the repository
    let (mach, real): (Vec<Violation>, Vec<Violation>) = std::mem::take(&mut rep.violations).into_iter().partition(|v| v.signature.starts_with("MACHINERY/"));
    rep.violations = real;
    for v in mach {
        let m = format!("{}: {}", v.signature, v.description.chars().take(300).collect::<String>());
        if !rep.machinery_errors.contains(&m) && rep.machinery_errors.len() < 20 {
            rep.machinery_errors.push(m);
        }
    }
    for v in &rep.violations {
        let k = known.iter().find(|k| k.covers(&rep.property, v));
        // one report per signature - separately for what a listed finding covers and for what it does not
        if !seen.insert(format!("{}#{}", v.signature, k.map(|k| k.script_prefix.clone().unwrap_or_default()).unwrap_or_else(|| "<new>".into()))) {
            continue;
        }
        match k {
            Some(k) => {
                lines.push(format!("KNOWN-FINDING: property={} {}{} ({})", rep.property, k.signature, k.script_prefix.as_ref().map(|p| format!(" on {p}*")).unwrap_or_default(), k.description));
                known_hits.push(k.signature.clone());
            }
            None => {
                new_viol += 1;
                let rdir = dir.join("replays").join(&rep.property);
                let _ = std::fs::create_dir_all(&rdir);
                let name = format!("{}.json", netmc::hexhash(format!("{}{}", v.signature, if known.iter().any(|k| k.property == rep.property && k.status == "known" && k.signature == v.signature) { v.description.lines().next().unwrap_or("") } else { "" }).as_bytes()));
                let path = rdir.join(name);
                let mut body = v.replay.clone();
                body["property"] = json!(rep.property);
                body["signature"] = json!(v.signature);
                body["description"] = json!(v.description);
                let _ = std::fs::write(&path, serde_json::to_string_pretty(&body).unwrap());
                lines.push(format!("VIOLATION property={} replay={}", rep.property, path.display()));
                crate::host::elog(&format!("  signature: {}\n  {}", v.signature, v.description.chars().take(1500).collect::<String>()));
            }
        }
    }
    rep.cov("known_findings_reproduced", json!(known_hits));
    if !rep.coverage.contains_key("samples") {
        rep.cov("samples", json!(["<none>"]));
    }
    let ev = json!({
        "property_id": rep.property,
        "tier": tier.name(),
        "seed": seed,
        "level": rep.level,
        "coverage": Value::Object(rep.coverage.clone()),
        "assumptions": rep.assumptions,
        "wall_s": t0.elapsed().as_secs_f64(),
        "violations": new_viol,
        "machinery_errors": rep.machinery_errors,
    });
    let edir = dir.join("evidence");
    let _ = std::fs::create_dir_all(&edir);
    let _ = std::fs::write(edir.join(format!("{}.json", rep.property)), serde_json::to_string_pretty(&ev).unwrap());
    for l in &lines {
        println!("{l}");
    }
    if new_viol > 0 {
        return 1;
    }
    if !rep.machinery_errors.is_empty() {
        for m in &rep.machinery_errors {
            crate::host::elog(&format!("MACHINERY-ERROR property={} {m}", rep.property));
        }
        return 2;
    }
    println!(
        "OK property={} tier={} wall={:.1}s {}",
        rep.property,
        tier.name(),
        t0.elapsed().as_secs_f64(),
        summary_line(&rep.coverage)
    );
    0
}

fn summary_line(c: &Map<String, Value>) -> String {
    let mut s = vec![];
    for k in ["programs", "states", "transitions", "distinct_runs", "evaluations", "distinct_nontrivial", "closed_graphs", "exhaustive"] {
        if let Some(v) = c.get(k) {
            s.push(format!("{k}={v}"));
        }
    }
    s.join(" ")
}

// ---------------------------------------------------------------------------------------------
// E1 driver

pub struct E1Result {
    pub scripts: usize,
    pub closed: usize,
    pub capped: Vec<String>,
    pub total: Stats,
    pub ret_codes: BTreeMap<i64, u64>,
    pub violations: Vec<Violation>,
    pub samples: Vec<Value>,
    pub extras: Vec<Value>,
    pub families: BTreeMap<String, usize>,
    pub max_states_script: (u64, String),
    pub distinct_outcomes: usize,
}

pub type MonFactory<'a> = &'a (dyn Fn(&Script) -> Box<dyn Monitor> + Sync);

fn threads() -> usize {
    std::env::var("VERIF_THREADS").ok().and_then(|s| s.parse().ok()).unwrap_or_else(|| std::thread::available_parallelism().map(|n| n.get()).unwrap_or(8))
}

fn merge_extra(acc: &mut Value, x: &Value) {
    match (acc, x) {
        (Value::Object(a), Value::Object(b)) => {
            for (k, v) in b {
                match a.get_mut(k) {
                    Some(av) => merge_extra(av, v),
                    None => {
                        a.insert(k.clone(), v.clone());
                    }
                }
            }
        }
        (a @ Value::Number(_), Value::Number(b)) => {
            let s = a.as_u64().unwrap_or(0) + b.as_u64().unwrap_or(0);
            *a = json!(s);
        }
        (a @ Value::Null, b) => *a = b.clone(),
        _ => {}
    }
}

pub fn script_replay_value(monitor: &str, s: &Script, text: &str, cfg: &Cfg, f: &Found) -> Value {
    json!({
        "engine": "netmc",
        "monitor": monitor,
        "script": serde_json::to_value(s).unwrap(),
        "script_text": text,
        "cfg": {"dup": cfg.dup, "deliver_return": cfg.deliver_return, "bogus": cfg.bogus},
        "path": f.path,
        "violation": {"tag": f.viol.tag, "detail": f.viol.detail},
    })
}

pub fn run_e1(monitor: &str, scripts: &[Script], cfg: &Cfg, factory: MonFactory<'_>, observers: &[&str]) -> E1Result {
    crate::host::install_panic_hook();
    // development aid: VERIF_ONLY=<substring> restricts a run to the scripts whose name contains it
    let filtered: Vec<Script>;
    let scripts: &[Script] = match std::env::var("VERIF_ONLY") {
        Ok(f) => {
            filtered = scripts.iter().filter(|s| s.name.contains(&f)).cloned().collect();
            &filtered
        }
        Err(_) => scripts,
    };
    let next = AtomicUsize::new(0);
    let stop = std::sync::atomic::AtomicBool::new(false);
    let known: Vec<String> = load_known().into_iter().filter(|k| k.status == "known" && k.property == monitor).map(|k| k.signature).collect();
    let results: Mutex<Vec<Option<(Stats, Vec<Violation>, Value, Value, usize)>>> = Mutex::new((0..scripts.len()).map(|_| None).collect());
    let nthreads = threads().min(scripts.len().max(1));
    std::thread::scope(|sc| {
        for _ in 0..nthreads {
            sc.spawn(|| loop {
                let i = next.fetch_add(1, Ordering::SeqCst);
                if i >= scripts.len() {
                    break;
                }
                let past_deadline = cfg.deadline.map(|d| std::time::Instant::now() > d).unwrap_or(false);
                if stop.load(Ordering::SeqCst) || past_deadline {
                    let mut st = Stats::default();
                    st.capped = Some(if past_deadline { "not explored: global time budget reached".into() } else { "not explored: stopped after a violation".into() });
                    results.lock().unwrap()[i] = Some((st, vec![], Value::Null, Value::Null, 0));
                    continue;
                }
                let s = &scripts[i];
                let world = World::new(s, observers, "particle-1");
                let text = world.part.script.clone();
                let mut mon = factory(s);
                let cfg = &Cfg { ignore_tags: known.clone(), deliver_return: cfg.deliver_return || cfg.deliver_return_families.iter().any(|f| f == &s.family), ..cfg.clone() };
                let ex = netmc::explore(world, cfg, mon.as_mut());
                let viols: Vec<Violation> = ex
                    .found
                    .iter()
                    .map(|f| Violation {
                        signature: f.viol.tag.clone(),
                        description: format!("script {} [{}]: {}\n  {}\n  path: {}", s.name, s.family, text, f.viol.detail, serde_json::to_string(&f.path).unwrap()),
                        replay: script_replay_value(monitor, s, &text, cfg, f),
                    })
                    .collect();
                if viols.iter().any(|v| !known.contains(&v.signature) && !v.signature.starts_with("MACHINERY/")) {
                    stop.store(true, Ordering::SeqCst);
                }
                // a sample: the script and the first few outcomes
                let sample = json!({"script": text, "family": s.family, "states": ex.stats.states, "transitions": ex.stats.transitions, "distinct_runs": ex.stats.distinct_runs});
                let outcomes: BTreeSet<(i64, u32)> = ex.cx.runs.iter().map(|r| (r.ret_code, r.out)).collect();
                results.lock().unwrap()[i] = Some((ex.stats, viols, ex.extra, sample, outcomes.len()));
            });
        }
    });
    let results = results.into_inner().unwrap();
    let mut out = E1Result {
        scripts: scripts.len(),
        closed: 0,
        capped: vec![],
        total: Stats::default(),
        ret_codes: BTreeMap::new(),
        violations: vec![],
        samples: vec![],
        extras: vec![],
        families: BTreeMap::new(),
        max_states_script: (0, String::new()),
        distinct_outcomes: 0,
    };
    let mut extra_acc = Value::Null;
    for (i, r) in results.into_iter().enumerate() {
        let (st, viols, extra, sample, nout) = r.expect("every script explored");
        *out.families.entry(scripts[i].family.clone()).or_insert(0) += 1;
        if st.closed {
            out.closed += 1;
        }
        if let Some(c) = &st.capped {
            out.capped.push(format!("{}: {c}", scripts[i].name));
        }
        out.total.states += st.states;
        out.total.states_without_ghosts += st.states_without_ghosts;
        out.total.transitions += st.transitions;
        out.total.distinct_runs += st.distinct_runs;
        out.total.extra_runs += st.extra_runs;
        out.total.quiescent_states += st.quiescent_states;
        out.total.nontrivial += st.nontrivial;
        out.total.max_depth = out.total.max_depth.max(st.max_depth);
        out.distinct_outcomes += nout;
        if st.states > out.max_states_script.0 {
            out.max_states_script = (st.states, scripts[i].name.clone());
        }
        for (k, v) in &st.ret_codes {
            *out.ret_codes.entry(*k).or_insert(0) += v;
        }
        out.violations.extend(viols);
        if !sample.is_null() && (out.samples.len() < 5 || (i % (scripts.len() / 5 + 1) == 0 && out.samples.len() < 10)) {
            out.samples.push(sample);
        }
        merge_extra(&mut extra_acc, &extra);
    }
    out.extras.push(extra_acc);
    out
}

/// Standard evidence for an E1-decided property.
pub fn e1_report(property: &str, rule: &str, res: &E1Result, cfg: &Cfg, bounds: &str) -> Report {
    let mut rep = Report::new(property, "model_checking");
    rep.cov("states", json!(res.total.states));
    rep.cov("states_without_ghost_variables", json!(res.total.states_without_ghosts));
    rep.cov("transitions", json!(res.total.transitions));
    rep.cov("traces_validated_against_impl", json!(res.total.transitions));
    rep.cov("distinct_runs", json!(res.total.distinct_runs));
    rep.cov("derived_runs", json!(res.total.extra_runs));
    rep.cov("programs", json!(res.scripts));
    rep.cov("families", json!(res.families));
    rep.cov("closed_graphs", json!(res.closed));
    rep.cov("capped_count", json!(res.capped.len()));
    rep.cov("capped", json!(res.capped.iter().take(40).collect::<Vec<_>>()));
    rep.cov("exhaustive", json!(res.closed == res.scripts));
    rep.cov("quiescent_states", json!(res.total.quiescent_states));
    rep.cov("max_depth", json!(res.total.max_depth));
    rep.cov("largest_graph", json!({"states": res.max_states_script.0, "script": res.max_states_script.1}));
    rep.cov("ret_codes", json!(res.ret_codes.iter().map(|(k, v)| (k.to_string(), *v)).collect::<BTreeMap<_, _>>()));
    rep.cov("distinct_outcomes", json!(res.distinct_outcomes));
    rep.cov("evaluations", json!(res.total.distinct_runs + res.total.extra_runs));
    rep.cov("distinct_nontrivial", json!(res.total.nontrivial));
    rep.cov("rule", json!(rule));
    rep.cov("bounds", json!(bounds));
    rep.cov("deviation_bound", json!(cfg.max_deviations));
    rep.cov("environment", json!({"duplicate_and_stale_delivery": cfg.dup, "deliver_with_results": cfg.deliver_return, "deliver_with_results_for_families": cfg.deliver_return_families, "bogus_result_ids": cfg.bogus, "result_subsets": format!("all non-empty subsets up to {} pending", cfg.max_subset_pending)}));
    rep.cov("monitor_counters", res.extras.first().cloned().unwrap_or(Value::Null));
    rep.cov("samples", json!(res.samples));
    rep.cov(
        "explanation",
        json!("every transition is one call of the real air::execute_air (memoised per distinct input tuple); traces_validated_against_impl = transitions because there is no separate model"),
    );
    rep.assumptions = vec![
        "native build of the air crate (features check_signatures, gen_signatures), not the Wasm module".into(),
        "host model per avm/server: store outcome.data unconditionally, forward to next_peer_pks, answer call requests in any grouping".into(),
        "state merging on canonical decoded data is licensed by the C20 check".into(),
    ];
    for v in &res.violations {
        if v.signature.starts_with("MACHINERY/") {
            rep.machinery_errors.push(format!("{}: {}", v.signature, v.description.chars().take(300).collect::<String>()));
        } else {
            rep.violations.push(v.clone());
        }
    }
    if res.total.nontrivial == 0 {
        rep.machinery_errors.push("vacuous: the monitor saw no non-trivial case".into());
    }
    rep
}
