//! Engine E2, C24: lens selection against plain JSON navigation (JsonNav), driven through the public entry
//! point. A case is (carrier, value(s), path, scalar accessor value); the script binds the values through
//! call results, applies the lens in a call argument inside an xor whose handler reports `:error:`.

use crate::check::{Report, Tier};
use crate::e2b::{e2_report, to_violations, Found};
use crate::host::{self, make_peer, Particle, Peer, RawResults};

use air_interpreter_interface::CallServiceResult;
use serde_json::{json, Value};
use std::collections::BTreeMap;

// ---------------------------------------------------------------------------------------------
// JsonNav: the reference

#[derive(Clone, Debug, PartialEq)]
pub enum Acc {
    Field(String),
    Idx(u64),
    /// `.[k]`: index or key taken from the scalar `k`
    Scalar,
}

fn acc_text(a: &Acc) -> String {
    match a {
        Acc::Field(f) => format!(".{f}"),
        Acc::Idx(i) => format!(".[{i}]"),
        Acc::Scalar => ".[k]".into(),
    }
}

pub fn path_text(p: &[Acc]) -> String {
    p.iter().map(acc_text).collect()
}

/// One navigation step on a plain JSON value. None = navigation impossible.
fn step(v: &Value, a: &Acc, k: &Value) -> Option<Value> {
    match a {
        Acc::Field(f) => v.as_object()?.get(f).cloned(),
        Acc::Idx(i) => v.as_array()?.get(*i as usize).cloned(),
        Acc::Scalar => match k {
            Value::String(s) => v.as_object()?.get(s).cloned(),
            Value::Number(n) => {
                // an array index is a non-negative integer
                let i = n.as_u64()?;
                if n.is_f64() {
                    return None;
                }
                v.as_array()?.get(usize::try_from(i).ok()?).cloned()
            }
            _ => None,
        },
    }
}

pub fn nav(v: &Value, path: &[Acc], k: &Value) -> Option<Value> {
    let mut cur = v.clone();
    for a in path {
        cur = step(&cur, a, k)?;
    }
    Some(cur)
}

// ---------------------------------------------------------------------------------------------
// the universe

fn atoms() -> Vec<Value> {
    vec![Value::Null, json!(true), json!(0), json!(1), json!("a")]
}

fn composites(over: &[Value]) -> Vec<Value> {
    let mut out = vec![json!([]), json!({})];
    for x in over {
        out.push(json!([x]));
        out.push(json!({"a": x}));
        out.push(json!({"b": x}));
    }
    for x in over {
        for y in over {
            out.push(json!([x, y]));
            out.push(json!({"a": x, "b": y}));
        }
    }
    out
}

pub fn values(depth: usize, stride: usize) -> Vec<Value> {
    let a = atoms();
    let mut d1 = a.clone();
    d1.extend(composites(&a));
    if depth <= 1 {
        return d1;
    }
    let mut out = d1.clone();
    for (i, c) in composites(&d1).into_iter().enumerate() {
        if i % stride == 0 {
            out.push(c);
        }
    }
    let mut seen = std::collections::BTreeSet::new();
    out.retain(|v| seen.insert(v.to_string()));
    out
}

fn scalar_ks() -> Vec<Value> {
    vec![json!(0), json!(1), json!("a"), json!("b"), json!(true), Value::Null, json!(1.5), json!(-1), json!(4294967297u64), json!(2), json!([0]), json!({"a": 0})]
}

fn accessors() -> Vec<Acc> {
    vec![Acc::Field("a".into()), Acc::Field("b".into()), Acc::Idx(0), Acc::Idx(1), Acc::Idx(2), Acc::Scalar]
}

pub fn paths(maxlen: usize) -> Vec<Vec<Acc>> {
    let mut out: Vec<Vec<Acc>> = vec![];
    let mut layer: Vec<Vec<Acc>> = vec![vec![]];
    for _ in 0..maxlen {
        let mut next = vec![];
        for p in &layer {
            for a in accessors() {
                let mut q = p.clone();
                q.push(a);
                next.push(q);
            }
        }
        out.extend(next.iter().cloned());
        layer = next;
    }
    out
}

// ---------------------------------------------------------------------------------------------
// the driver: one peer, two runs

pub struct Driver {
    peer: Peer,
    /// script text -> (data after the first run, function name -> request id)
    first: BTreeMap<String, (Vec<u8>, BTreeMap<String, u32>)>,
    pub runs: u64,
}

#[derive(Debug, Clone, PartialEq)]
pub enum Got {
    Value(Value, String /* lens of the tetraplet */),
    Error(i64, String),
    Other(String),
}

impl Driver {
    pub fn new() -> Driver {
        Driver { peer: make_peer("A"), first: BTreeMap::new(), runs: 0 }
    }

    fn particle(&self, script: &str) -> Particle {
        Particle { script: script.to_string(), init_peer_id: self.peer.id.clone(), particle_id: "particle-lens".into(), timestamp: 1_700_000_000_000, ttl: 30_000 }
    }

    /// Runs `script` (whose value calls are all addressed to this peer, in a par), answers the value calls
    /// with `answers` (function name -> JSON text) and returns what the final `out`/`err` call was asked.
    pub fn eval(&mut self, script: &str, answers: &BTreeMap<String, String>) -> Got {
        let part = self.particle(script);
        if !self.first.contains_key(script) {
            self.runs += 1;
            let o = match host::run(&part, &self.peer, &[], &[], &RawResults::new()) {
                Ok(o) => o,
                Err(p) => return Got::Other(format!("panic in the first run: {p}")),
            };
            if o.ret_code != 0 {
                return Got::Other(format!("first run: ret_code {} {}", o.ret_code, o.error_message));
            }
            let reqs = match host::decode_requests(&o.call_requests) {
                Ok(r) => r,
                Err(e) => return Got::Other(e),
            };
            let ids: BTreeMap<String, u32> = reqs.iter().map(|(id, r)| (r.function.clone(), *id)).collect();
            self.first.insert(script.to_string(), (o.data, ids));
        }
        let (data, ids) = self.first.get(script).unwrap().clone();
        let mut raw = RawResults::new();
        for (f, id) in &ids {
            match answers.get(f) {
                Some(t) => {
                    raw.insert(*id, CallServiceResult { ret_code: 0, result: t.clone() });
                }
                None => return Got::Other(format!("no answer for requested function {f}")),
            }
        }
        self.runs += 1;
        let o = match host::run(&part, &self.peer, &data, &[], &raw) {
            Ok(o) => o,
            Err(p) => return Got::Other(format!("panic: {p}")),
        };
        if o.ret_code != 0 {
            return Got::Other(format!("ret_code {} {}", o.ret_code, o.error_message));
        }
        let reqs = match host::decode_requests(&o.call_requests) {
            Ok(r) => r,
            Err(e) => return Got::Other(e),
        };
        if reqs.len() != 1 {
            return Got::Other(format!("{} requests after the second run", reqs.len()));
        }
        let r = reqs.values().next().unwrap();
        let args = r.args_json();
        match r.function.as_str() {
            "out" => Got::Value(args[0].clone(), r.tetraplets.first().and_then(|t| t.first()).map(|t| t.3.clone()).unwrap_or_default()),
            "err" => Got::Error(args[0].as_i64().unwrap_or(-1), args[1].as_str().unwrap_or("").to_string()),
            f => Got::Other(format!("unexpected request {f}")),
        }
    }
}

const TAIL: &str = r#"(call %init_peer_id% ("s" "err") [:error:.$.error_code :error:.$.message])"#;

fn scalar_script(lens: &str) -> String {
    format!(r#"(seq (par (call %init_peer_id% ("s" "v1") [] x) (call %init_peer_id% ("s" "k") [] k)) (xor (call %init_peer_id% ("s" "out") [x{lens}]) {TAIL}))"#)
}

fn stream_script(n: usize, lens: &str) -> String {
    let writers = match n {
        0 => r#"(call %init_peer_id% ("s" "k") [] k)"#.to_string(),
        1 => r#"(par (call %init_peer_id% ("s" "v1") [] $s) (call %init_peer_id% ("s" "k") [] k))"#.to_string(),
        _ => r#"(par (call %init_peer_id% ("s" "v1") [] $s) (par (call %init_peer_id% ("s" "v2") [] $s) (call %init_peer_id% ("s" "k") [] k)))"#.to_string(),
    };
    format!(r#"(seq (seq {writers} (canon %init_peer_id% $s #cs)) (xor (call %init_peer_id% ("s" "out") [#cs{lens}]) {TAIL}))"#)
}

/// keys: AIR text of the two keys, e.g. `"a"`, `1`
fn map_script(key1: &str, key2: &str, lens: &str) -> String {
    format!(
        r#"(seq (seq (par (call %init_peer_id% ("s" "v1") [] x1) (par (call %init_peer_id% ("s" "v2") [] x2) (call %init_peer_id% ("s" "k") [] k))) (seq (ap ({key1} x1) %m) (seq (ap ({key2} x2) %m) (canon %init_peer_id% %m #%c)))) (xor (call %init_peer_id% ("s" "out") [#%c{lens}]) {TAIL}))"#
    )
}

fn is_catchable(code: i64) -> bool {
    (10000..20000).contains(&code)
}

fn parse_path(t: &str) -> Vec<Acc> {
    let mut out = vec![];
    for seg in t.split('.').filter(|s| !s.is_empty()) {
        if seg == "[k]" {
            out.push(Acc::Scalar);
        } else if let Some(n) = seg.strip_prefix('[').and_then(|s| s.strip_suffix(']')) {
            out.push(Acc::Idx(n.parse().unwrap()));
        } else {
            out.push(Acc::Field(seg.to_string()));
        }
    }
    out
}

fn judge(got: &Got, want: &Option<Value>, what: &str, lens_text: &str) -> Found {
    let mut out: Found = vec![];
    match (got, want) {
        (Got::Value(v, lens), Some(w)) => {
            if v != w {
                out.push(("C24/wrong-value-selected".into(), format!("{what}: lens gives {v}, plain JSON navigation gives {w}")));
            }
            if !lens_text.is_empty() && lens != lens_text {
                out.push(("C24/tetraplet-lens-differs-from-the-lens-applied".into(), format!("{what}: tetraplet lens {lens:?}, lens applied {lens_text:?}")));
            }
        }
        (Got::Value(v, _), None) => out.push(("C24/selection-succeeds-where-navigation-is-impossible".into(), format!("{what}: lens gives {v}"))),
        (Got::Error(code, msg), Some(w)) => out.push(("C24/selection-fails-where-navigation-is-possible".into(), format!("{what}: error {code} {msg:?}, plain JSON navigation gives {w}"))),
        (Got::Error(code, msg), None) => {
            if !is_catchable(*code) {
                out.push(("C24/failure-is-not-a-catchable-error".into(), format!("{what}: error {code} {msg:?}")));
            }
        }
        (Got::Other(e), _) => out.push(("C24/run-did-not-report-a-selection-or-a-catchable-error".into(), format!("{what}: {e}"))),
    }
    out
}

/// Evaluates one case.
pub fn c24_case_with(drv: &mut Driver, case: &Value) -> Found {
    let carrier = case["carrier"].as_str().unwrap_or("");
    let lens = case["lens"].as_str().unwrap_or("");
    let k: Value = case["k"].clone();
    let v1 = case["v1"].clone();
    let v2 = case["v2"].clone();
    let mut answers: BTreeMap<String, String> = BTreeMap::new();
    answers.insert("v1".into(), v1.to_string());
    answers.insert("v2".into(), v2.to_string());
    answers.insert("k".into(), k.to_string());
    let what = format!("{carrier} v1={v1} v2={v2} k={k} lens {lens:?}");
    match carrier {
        "scalar" => {
            let got = drv.eval(&scalar_script(&format!(".${lens}")), &answers);
            let want = nav(&v1, &parse_path(lens), &k);
            judge(&got, &want, &what, &format!(".${lens}"))
        }
        "scalar-length" => {
            let got = drv.eval(&scalar_script(".length"), &answers);
            let want = v1.as_array().map(|a| json!(a.len()));
            judge(&got, &want, &what, "")
        }
        "stream" => {
            let n = case["n"].as_u64().unwrap_or(1) as usize;
            let got = drv.eval(&stream_script(n, &format!(".${lens}")), &answers);
            let arr = Value::Array([v1.clone(), v2.clone()].into_iter().take(n).collect());
            let want = nav(&arr, &parse_path(lens), &k);
            judge(&got, &want, &what, "")
        }
        "stream-length" => {
            let n = case["n"].as_u64().unwrap_or(1) as usize;
            let got = drv.eval(&stream_script(n, ".length"), &answers);
            judge(&got, &Some(json!(n)), &what, "")
        }
        "map" => {
            let (key1, key2) = (case["key1"].clone(), case["key2"].clone());
            let air_key = |k: &Value| match k {
                Value::String(s) => format!("\"{s}\""),
                other => other.to_string(),
            };
            let got = drv.eval(&map_script(&air_key(&key1), &air_key(&key2), &format!(".${lens}")), &answers);
            // reference: a multimap; the first accessor selects the key group (empty if the key is absent)
            let path = parse_path(lens);
            let want = (|| {
                let first = path.first()?;
                let sel: Value = match first {
                    Acc::Field(f) => json!(f),
                    Acc::Idx(i) => json!(i),
                    Acc::Scalar => match &k {
                        Value::String(_) => k.clone(),
                        Value::Number(n) if n.is_i64() || n.is_u64() => k.clone(),
                        _ => return None,
                    },
                };
                let mut group = vec![];
                for (kk, vv) in [(&key1, &v1), (&key2, &v2)] {
                    if *kk == sel {
                        group.push(vv.clone());
                    }
                }
                nav(&Value::Array(group), &path[1..], &k)
            })();
            let mut f = judge(&got, &want, &what, "");
            // classify: the selected key is absent from the map and further accessors follow
            let key_text = |v: &Value| v.to_string();
            let sel_absent = match path.first() {
                Some(Acc::Field(fl)) => ![&key1, &key2].iter().any(|kk| **kk == json!(fl)),
                Some(Acc::Idx(i)) => ![&key1, &key2].iter().any(|kk| **kk == json!(i)),
                Some(Acc::Scalar) => (k.is_string() || k.is_i64() || k.is_u64()) && ![&key1, &key2].iter().any(|kk| key_text(kk) == key_text(&k)),
                None => false,
            };
            if sel_absent && path.len() > 1 {
                for x in f.iter_mut() {
                    if x.0 == "C24/selection-succeeds-where-navigation-is-impossible" {
                        x.0.push_str("/absent-map-key-followed-by-accessors");
                    }
                }
            }
            f
        }
        _ => vec![("MACHINERY/unknown-case".into(), case.to_string())],
    }
}

pub fn c24_case(case: &Value) -> Found {
    c24_case_with(&mut Driver::new(), case)
}

fn cases(tier: Tier) -> Vec<Value> {
    let quick = tier == Tier::Quick;
    let mut out = vec![];
    let vals = values(2, if quick { 11 } else { 1 });
    let small = values(1, 1);
    let ks = scalar_ks();
    let uses_k = |p: &[Acc]| p.iter().any(|a| *a == Acc::Scalar);
    // scalars
    for p in paths(if quick { 2 } else { 3 }) {
        let lens = path_text(&p);
        let universe = if p.len() >= 3 { &small } else { &vals };
        for v in universe {
            let klist: Vec<Value> = if uses_k(&p) { ks.clone() } else { vec![json!(0)] };
            for k in klist {
                out.push(json!({"property": "C24", "carrier": "scalar", "lens": lens, "v1": v, "v2": null, "k": k}));
            }
        }
    }
    for v in &vals {
        out.push(json!({"property": "C24", "carrier": "scalar-length", "lens": ".length", "v1": v, "v2": null, "k": 0}));
    }
    // canonical streams: first accessor on the stream, then a path into the element
    let elems: Vec<Value> = if quick { small.iter().step_by(3).cloned().collect() } else { small.clone() };
    let mut sub: Vec<Vec<Acc>> = vec![vec![]];
    sub.extend(paths(if quick { 1 } else { 2 }));
    for n in 0..=2usize {
        for first in [Acc::Idx(0), Acc::Idx(1), Acc::Idx(2), Acc::Scalar, Acc::Field("a".into())] {
            for s in &sub {
                let mut p = vec![first.clone()];
                p.extend(s.iter().cloned());
                let lens = path_text(&p);
                let klist: Vec<Value> = if uses_k(&p) { ks.clone() } else { vec![json!(0)] };
                for v1 in &elems {
                    for v2 in [json!({"a": [0, "a"], "b": 1}), json!([1, {"a": true}])] {
                        for k in &klist {
                            out.push(json!({"property": "C24", "carrier": "stream", "n": n, "lens": lens, "v1": v1, "v2": v2, "k": k}));
                        }
                        if n < 2 {
                            break;
                        }
                    }
                    if n == 0 {
                        break;
                    }
                }
            }
        }
        out.push(json!({"property": "C24", "carrier": "stream-length", "n": n, "lens": ".length", "v1": 1, "v2": 2, "k": 0}));
    }
    // canonical maps
    let mkeys = [(json!("a"), json!("a")), (json!("a"), json!("b")), (json!("a"), json!(1)), (json!(1), json!(1)), (json!(0), json!("b"))];
    let melems: Vec<Value> = elems.iter().step_by(if quick { 3 } else { 1 }).cloned().collect();
    for (k1, k2) in &mkeys {
        for first in [Acc::Field("a".into()), Acc::Field("b".into()), Acc::Idx(0), Acc::Idx(1), Acc::Scalar] {
            for second in [None, Some(Acc::Idx(0)), Some(Acc::Idx(1)), Some(Acc::Idx(2)), Some(Acc::Scalar)] {
                for third in [None, Some(Acc::Field("a".into())), Some(Acc::Idx(0)), Some(Acc::Scalar)] {
                    if second.is_none() && third.is_some() {
                        continue;
                    }
                    let p: Vec<Acc> = [Some(first.clone()), second.clone(), third.clone()].into_iter().flatten().collect();
                    let lens = path_text(&p);
                    let klist: Vec<Value> = if uses_k(&p) { ks.clone() } else { vec![json!(0)] };
                    for v1 in &melems {
                        for k in &klist {
                            out.push(json!({"property": "C24", "carrier": "map", "key1": k1, "key2": k2, "lens": lens, "v1": v1, "v2": {"a": [0, "a"], "b": 1}, "k": k}));
                        }
                    }
                }
            }
        }
    }
    out
}

pub fn check_c24(tier: Tier) -> Report {
    let mut rep = e2_report(
        "C24",
        &[
            "the lens applier is crate-private and is driven through air::execute_air: values and the scalar accessor arrive as call results, the lens is applied in a call argument under an xor whose handler reports :error:",
            "reference for maps: a multimap; the first accessor selects the group of values appended under that key, in order, and an absent key selects the empty group",
            "a float-typed number (1.5) is not an index; 1.0 is outside the alphabet because plain JSON navigation does not say whether it is one",
        ],
    );
    let all = cases(tier);
    let n = all.len();
    let nthreads = std::thread::available_parallelism().map(|x| x.get()).unwrap_or(8);
    let chunks: Vec<&[Value]> = all.chunks((n / (nthreads * 8)).max(1)).collect();
    let next = std::sync::atomic::AtomicUsize::new(0);
    let results: std::sync::Mutex<Vec<(usize, Vec<(usize, Found)>, BTreeMap<String, u64>, u64)>> = std::sync::Mutex::new(vec![]);
    std::thread::scope(|sc| {
        for _ in 0..nthreads {
            sc.spawn(|| {
                crate::host::install_panic_hook();
                loop {
                    let ci = next.fetch_add(1, std::sync::atomic::Ordering::SeqCst);
                    if ci >= chunks.len() {
                        break;
                    }
                    let mut drv = Driver::new();
                    let mut found = vec![];
                    let mut outcomes: BTreeMap<String, u64> = BTreeMap::new();
                    for (i, c) in chunks[ci].iter().enumerate() {
                        let f = c24_case_with(&mut drv, c);
                        if !f.is_empty() {
                            found.push((i, f));
                        }
                        let _ = &mut outcomes;
                    }
                    results.lock().unwrap().push((ci, found, outcomes, drv.runs));
                }
            });
        }
    });
    let mut results = results.into_inner().unwrap();
    results.sort_by_key(|r| r.0);
    let mut runs = 0u64;
    for (ci, found, _, r) in results {
        runs += r;
        for (i, f) in found {
            rep.violations.extend(to_violations(&chunks[ci][i], f));
        }
    }
    // non-trivial: cases where the reference navigation is possible through >= 2 steps, or impossible at the last step only
    let mut nontrivial = 0u64;
    let mut by_carrier: BTreeMap<String, u64> = BTreeMap::new();
    for c in &all {
        *by_carrier.entry(c["carrier"].as_str().unwrap_or("").to_string()).or_insert(0) += 1;
        let p = parse_path(c["lens"].as_str().unwrap_or(""));
        if p.len() >= 2 && c["carrier"] == "scalar" {
            let full = nav(&c["v1"], &p, &c["k"]);
            let but_last = nav(&c["v1"], &p[..p.len() - 1], &c["k"]);
            if full.is_some() || but_last.is_some() {
                nontrivial += 1;
            }
        } else if c["carrier"] != "scalar" {
            nontrivial += 1;
        }
    }
    rep.cov("evaluations", json!(n));
    rep.cov("interpreter_runs", json!(runs));
    rep.cov("distinct_nontrivial", json!(nontrivial));
    rep.cov("cases_by_carrier", json!(by_carrier));
    rep.cov("rule", json!("scalars: every JSON value of depth <= 2 over {null,true,0,1,\"a\"}, arrays of <= 2 elements, objects over keys {a,b} (quick: every 11th depth-2 value) x every path of length <= 2 (thorough 3) over {.a .b .[0] .[1] .[2] .[k]} x k in {0,1,2,\"a\",\"b\",true,null,1.5,-1,2^32+1,[0],{a:0}}, plus .length of every value; canonical streams of 0-2 values: first accessor in {.[0] .[1] .[2] .[k] .a} then a path of length <= 1 (thorough 2); canonical maps with two appended pairs over five key combinations (string/integer keys, equal and different): key accessor, optional element index, optional inner accessor; each compared with JsonNav: same value and a tetraplet lens equal to the lens text (scalars), or a catchable error exactly when navigation is impossible; non-trivial = scalar cases of path length >= 2 whose navigation succeeds or fails only at the last step, and all stream/map cases"));
    rep.cov("samples", json!(all.iter().step_by(n / 10 + 1).cloned().collect::<Vec<_>>()));
    rep
}
