//! Decoding of interpreter data into (a) the typed structures of the repository, (b) a canonical JSON text
//! used as state key (HashMap-backed stores are order-free there), and (c) a simplified trace view for monitors.

use air_interpreter_data::{
    CallResult, CanonResult, ExecutedState, InterpreterData, InterpreterDataEnvelope, Provenance, Sender, ValueRef,
};
use serde_json::Value;

use crate::host::canon_json_text;

pub type Tet = (String, String, String, String);

#[derive(Clone, Debug, PartialEq, Eq)]
pub enum CallSt {
    Sent { peer: String, call_id: Option<u32> },
    /// kind: 's' scalar, 't' stream, 'u' unused. cid: aggregate cid (scalar/stream) or value cid (unused)
    Exec { kind: char, cid: String, generation: Option<u32> },
    Failed { cid: String },
}

#[derive(Clone, Debug, PartialEq, Eq)]
pub enum CanonSt {
    Sent(String),
    Exec(String),
}

#[derive(Clone, Debug, PartialEq, Eq)]
pub struct Lore {
    pub value_pos: u32,
    pub descs: Vec<(u32, u32)>,
}

#[derive(Clone, Debug, PartialEq, Eq)]
pub enum Ent {
    Par(u32, u32),
    Call(CallSt),
    Fold(Vec<Lore>),
    Ap(Vec<u32>),
    Canon(CanonSt),
}

#[derive(Clone, Debug)]
pub struct SrvAgg {
    pub value_cid: String,
    pub value: Option<String>,
    pub tetraplet: Option<Tet>,
    pub arg_hash: String,
}

#[derive(Clone, Debug)]
pub struct CanonElem {
    pub cid: String,
    pub value: Option<String>,
    pub tetraplet: Option<Tet>,
    /// "literal" | "service_result:<cid>" | "canon:<cid>"
    pub provenance: String,
}

#[derive(Clone, Debug)]
pub struct CanonAgg {
    pub tetraplet: Option<Tet>,
    pub elems: Vec<CanonElem>,
}

pub struct Dec {
    pub empty: bool,
    pub data_version: String,
    pub interpreter_version: String,
    pub data: InterpreterData,
    pub json: Value,
    pub canon: String,
    pub trace: Vec<Ent>,
}

fn u(p: impl Into<usize>) -> u32 {
    p.into() as u32
}

pub fn view_trace(data: &InterpreterData) -> Vec<Ent> {
    data.trace
        .iter()
        .map(|st| match st {
            ExecutedState::Par(p) => Ent::Par(p.left_size, p.right_size),
            ExecutedState::Call(c) => Ent::Call(match c {
                CallResult::RequestSentBy(Sender::PeerId(p)) => CallSt::Sent { peer: p.to_string(), call_id: None },
                CallResult::RequestSentBy(Sender::PeerIdWithCallId { peer_id, call_id }) => {
                    CallSt::Sent { peer: peer_id.to_string(), call_id: Some(*call_id) }
                }
                CallResult::Executed(ValueRef::Scalar(cid)) => {
                    CallSt::Exec { kind: 's', cid: cid.get_inner().to_string(), generation: None }
                }
                CallResult::Executed(ValueRef::Stream { cid, generation }) => CallSt::Exec {
                    kind: 't',
                    cid: cid.get_inner().to_string(),
                    generation: Some(u(*generation)),
                },
                CallResult::Executed(ValueRef::Unused(cid)) => {
                    CallSt::Exec { kind: 'u', cid: cid.get_inner().to_string(), generation: None }
                }
                CallResult::Failed(cid) => CallSt::Failed { cid: cid.get_inner().to_string() },
            }),
            ExecutedState::Fold(f) => Ent::Fold(
                f.lore
                    .iter()
                    .map(|l| Lore {
                        value_pos: u(l.value_pos),
                        descs: l.subtraces_desc.iter().map(|d| (u(d.begin_pos), d.subtrace_len)).collect(),
                    })
                    .collect(),
            ),
            ExecutedState::Ap(a) => Ent::Ap(a.res_generations.iter().map(|g| u(*g)).collect()),
            ExecutedState::Canon(CanonResult::RequestSentBy(p)) => Ent::Canon(CanonSt::Sent(p.to_string())),
            ExecutedState::Canon(CanonResult::Executed(cid)) => Ent::Canon(CanonSt::Exec(cid.get_inner().to_string())),
        })
        .collect()
}

pub fn decode(bytes: &[u8]) -> Result<Dec, String> {
    if bytes.is_empty() {
        let data = InterpreterData::default();
        return Ok(Dec {
            empty: true,
            data_version: String::new(),
            interpreter_version: String::new(),
            json: Value::Null,
            canon: "EMPTY".into(),
            trace: vec![],
            data,
        });
    }
    let env = InterpreterDataEnvelope::try_from_slice(bytes).map_err(|e| format!("envelope: {e}"))?;
    let data = InterpreterData::try_from_slice(&env.inner_data).map_err(|e| format!("inner data: {e}"))?;
    let json = serde_json::to_value(&data).map_err(|e| format!("to json: {e}"))?;
    let dv = env.versions.data_version.to_string();
    let iv = env.versions.interpreter_version.to_string();
    let canon = format!("{dv}|{iv}|{}", canon_json_text(&json));
    let trace = view_trace(&data);
    Ok(Dec { empty: false, data_version: dv, interpreter_version: iv, data, json, canon, trace })
}

fn tet_of(t: &polyplets::SecurityTetraplet) -> Tet {
    (t.peer_pk.clone(), t.service_id.clone(), t.function_name.clone(), t.lens.clone())
}

impl Dec {
    pub fn srv(&self, cid: &str) -> Option<SrvAgg> {
        let ci = &self.data.cid_info;
        let agg = ci.service_result_store.get(&air_interpreter_cid::CID::new(cid))?;
        let value = self.json["cid_info"]["value_store"]
            .get(&*agg.value_cid.get_inner())
            .and_then(|v| v.as_str().map(|s| s.to_string()));
        let tetraplet = ci.tetraplet_store.get(&agg.tetraplet_cid).map(|t| tet_of(&t));
        Some(SrvAgg {
            value_cid: agg.value_cid.get_inner().to_string(),
            value,
            tetraplet,
            arg_hash: agg.argument_hash.to_string(),
        })
    }

    pub fn canon(&self, cid: &str) -> Option<CanonAgg> {
        let ci = &self.data.cid_info;
        let agg = ci.canon_result_store.get(&air_interpreter_cid::CID::new(cid))?;
        let tetraplet = ci.tetraplet_store.get(&agg.tetraplet).map(|t| tet_of(&t));
        let mut elems = vec![];
        for ecid in &agg.values {
            let e = ci.canon_element_store.get(ecid);
            let (value, tet, prov) = match e {
                Some(e) => (
                    self.json["cid_info"]["value_store"]
                        .get(&*e.value.get_inner())
                        .and_then(|v| v.as_str().map(|s| s.to_string())),
                    ci.tetraplet_store.get(&e.tetraplet).map(|t| tet_of(&t)),
                    match &e.provenance {
                        Provenance::Literal => "literal".to_string(),
                        Provenance::ServiceResult { cid } => format!("service_result:{}", cid.get_inner()),
                        Provenance::Canon { cid } => format!("canon:{}", cid.get_inner()),
                    },
                ),
                None => (None, None, "missing".into()),
            };
            elems.push(CanonElem { cid: ecid.get_inner().to_string(), value, tetraplet: tet, provenance: prov });
        }
        Some(CanonAgg { tetraplet, elems })
    }

    /// Peer a call/canon result is attributed to (tetraplet peer), if resolvable.
    pub fn owner_of_call(&self, cid: &str) -> Option<String> {
        self.srv(cid).and_then(|a| a.tetraplet).map(|t| t.0)
    }

    /// Multiset of "knowledge" content ids: executed (scalar/stream/unused) call cids, failed call cids and
    /// executed canon cids, each tagged with its kind.
    pub fn result_multiset(&self) -> std::collections::BTreeMap<String, usize> {
        let mut m = std::collections::BTreeMap::new();
        for e in &self.trace {
            let k = match e {
                Ent::Call(CallSt::Exec { kind, cid, .. }) => format!("exec-{}:{cid}", if *kind == 'u' { 'u' } else { 'a' }),
                Ent::Call(CallSt::Failed { cid }) => format!("failed:{cid}"),
                Ent::Canon(CanonSt::Exec(cid)) => format!("canon:{cid}"),
                _ => continue,
            };
            *m.entry(k).or_insert(0) += 1;
        }
        m
    }

    /// Per-peer multiset of signed cids as the verifier computes it (call aggregates and canon results by tetraplet peer).
    pub fn peer_cids(&self) -> std::collections::BTreeMap<String, Vec<String>> {
        let mut m: std::collections::BTreeMap<String, Vec<String>> = Default::default();
        for e in &self.trace {
            match e {
                Ent::Call(CallSt::Exec { kind, cid, .. }) if *kind != 'u' => {
                    if let Some(p) = self.owner_of_call(cid) {
                        m.entry(p).or_default().push(cid.clone());
                    }
                }
                Ent::Call(CallSt::Failed { cid }) => {
                    if let Some(p) = self.owner_of_call(cid) {
                        m.entry(p).or_default().push(cid.clone());
                    }
                }
                Ent::Canon(CanonSt::Exec(cid)) => {
                    if let Some(p) = self.canon(cid).and_then(|c| c.tetraplet).map(|t| t.0) {
                        m.entry(p).or_default().push(cid.clone());
                    }
                }
                _ => {}
            }
        }
        for v in m.values_mut() {
            v.sort();
        }
        m
    }

    pub fn lcid(&self) -> u32 {
        self.data.last_call_request_id
    }
}

/// Re-encode (possibly edited) JSON tree of interpreter data into an envelope, public API only.
pub fn encode_from_json(json: &Value, interpreter_version: &str) -> Result<Vec<u8>, String> {
    let data: InterpreterData = serde_json::from_value(json.clone()).map_err(|e| format!("from json: {e}"))?;
    encode_data(data, interpreter_version)
}

pub fn encode_data(data: InterpreterData, interpreter_version: &str) -> Result<Vec<u8>, String> {
    let ver = semver::Version::parse(interpreter_version).map_err(|e| e.to_string())?;
    let env = InterpreterDataEnvelope::from_execution_result(
        data.trace,
        data.cid_info,
        data.signatures,
        data.last_call_request_id,
        ver,
    );
    env.serialize().map_err(|e| format!("envelope serialize: {e}"))
}
