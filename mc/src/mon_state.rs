//! Monitors that need history (ghost variables) or the reference evaluator: C05 C06 C16 C17 C19.

use crate::data::{CallSt, CanonSt, Dec, Ent};
use crate::mon_local::{expectation, find_states, view};
use crate::netmc::{viol, Action, BlobId, Cx, Monitor, ReqId, RunId, State, StateInfo, Viol};
use crate::refeval::{ref_eval, ExpCall, RefOut};
use crate::script::{self, PeerRef, I};

use serde_json::{json, Value};
use std::collections::{BTreeMap, BTreeSet, HashMap};

fn class(code: i64) -> &'static str {
    crate::host::outcome_code_class(code)
}

/// Reference evaluation of a script in the world of `cx` (lazy, once per script).
pub struct Ref {
    pub out: Option<std::rc::Rc<RefOut>>,
}

impl Ref {
    pub fn new() -> Ref {
        Ref { out: None }
    }
    pub fn get(&mut self, cx: &Cx) -> std::rc::Rc<RefOut> {
        if self.out.is_none() {
            let init = cx.world.peers[0].name.clone();
            self.out = Some(std::rc::Rc::new(ref_eval(&cx.world.script.ast, &cx.world.ids, &init, &cx.world.oracle)));
        }
        self.out.as_ref().unwrap().clone()
    }
}

fn matches_exp(cx: &Cx, peer: usize, rq: ReqId, e: &ExpCall) -> bool {
    let r = &cx.reqs[rq as usize];
    if e.peer != cx.world.peers[peer].name || e.svc != r.service || e.func != r.function {
        return false;
    }
    if e.wild {
        return true;
    }
    e.args.len() == r.args.len() && e.args.iter().zip(r.args.iter()).all(|(a, b)| crate::host::canon_json_text(a) == *b)
}

// ---------------------------------------------------------------------------------------------
// C16

pub struct C16 {
    r: Ref,
    pub nontrivial_script: bool,
    pub requests_checked: u64,
    pub never_happened_info: u64,
}

impl C16 {
    pub fn new() -> C16 {
        C16 { r: Ref::new(), nontrivial_script: false, requests_checked: 0, never_happened_info: 0 }
    }
}

impl Monitor for C16 {
    fn on_transition(&mut self, cx: &mut Cx, _pre: &State, _act: &Action, rid: RunId, post: &State) -> Vec<Viol> {
        let mut out = vec![];
        let run = cx.runs[rid as usize].clone();
        if run.requests.is_empty() {
            return out;
        }
        let exp = self.r.get(cx);
        if let Some(u) = &exp.unsupported {
            return vec![viol("MACHINERY/refeval-unsupported", u.clone())];
        }
        self.nontrivial_script = exp.xor_right_taken > 0 || exp.match_skipped > 0 || exp.max_fold_iterations >= 2;
        for (id, rq) in &run.requests {
            self.requests_checked += 1;
            let allowed = exp.calls.iter().filter(|e| matches_exp(cx, run.peer, *rq, e)).count() as u32;
            let issued = post.ghosts.issued.get(&(run.peer as u8, *rq)).cloned().unwrap_or(0);
            let r = &cx.reqs[*rq as usize];
            if allowed == 0 {
                // classify: same site exists but with other arguments / on another peer / not at all
                let same_fn: Vec<&ExpCall> = exp.calls.iter().filter(|e| e.func == r.function).collect();
                let kind = if same_fn.is_empty() {
                    "call-not-reached-by-sequential-reading"
                } else if same_fn.iter().any(|e| e.peer != cx.world.peers[run.peer].name) {
                    "call-issued-on-wrong-peer"
                } else {
                    "call-with-different-arguments"
                };
                out.push(viol(
                    &format!("C16/{kind}"),
                    format!(
                        "peer {} issued request id {id}: ({} {}) {:?}; the sequential reading makes: {:?}",
                        cx.world.peers[run.peer].name,
                        r.service,
                        r.function,
                        r.args,
                        exp.calls.iter().map(|e| format!("{}:{}{:?}", e.peer, e.func, e.args.iter().map(crate::host::canon_json_text).collect::<Vec<_>>())).collect::<Vec<_>>()
                    ),
                ));
            } else if issued > allowed {
                out.push(viol(
                    "C16/call-issued-more-often-than-sequential-reading",
                    format!("peer {} issued ({} {}) {:?} {issued} times, the sequential reading makes it {allowed} time(s)", cx.world.peers[run.peer].name, r.service, r.function, r.args),
                ));
            }
        }
        out
    }
    fn on_state(&mut self, cx: &mut Cx, st: &State, info: &StateInfo) -> Vec<Viol> {
        if info.quiescent {
            // information only: expected calls that never happened
            let exp = self.r.get(cx);
            let happened: u32 = st.ghosts.issued.values().sum();
            if (happened as usize) < exp.calls.len() {
                self.never_happened_info += 1;
            }
        }
        vec![]
    }
    fn nontrivial(&self) -> u64 {
        if self.nontrivial_script && self.requests_checked > 0 {
            1
        } else {
            0
        }
    }
    fn extra(&self) -> Value {
        json!({"requests_compared_with_refeval": self.requests_checked, "quiescent_states_with_expected_calls_not_made_info": self.never_happened_info})
    }
}

// ---------------------------------------------------------------------------------------------
// C17

pub struct C17 {
    r: Ref,
    pub args_checked: u64,
    pub foreign_producer_args: u64,
    seen: BTreeSet<(usize, ReqId)>,
    /// static expectations for non-SEQ scripts: function -> per-argument expectation kind
    pub stream_mode: bool,
}

impl C17 {
    pub fn new(stream_mode: bool) -> C17 {
        C17 { r: Ref::new(), args_checked: 0, foreign_producer_args: 0, seen: BTreeSet::new(), stream_mode }
    }
}

/// STREAM/MAP consumer calls: each element of a canon-stream argument must carry the tetraplet of the
/// call that produced it (peer, service, function taken from the value itself, which embeds them).
fn check_stream_tetraplets(cx: &Cx, peer: usize, rq: ReqId, this: &mut C17) -> Vec<Viol> {
    let r = cx.reqs[rq as usize].clone();
    let mut out = vec![];
    // find the call site to know the argument forms
    let mut site: Option<&I> = None;
    for c in script::calls(&cx.world.script.ast) {
        if let I::Call { func, args, .. } = c {
            // (two sites may share a function name, e.g. the first and the recursive call of a route script)
            if *func == r.function && args.len() == r.args.len() {
                site = Some(c);
            }
        }
    }
    let Some(I::Call { args, .. }) = site else { return out };
    let name_to_id = |n: &str| cx.world.ids.get(n).cloned().unwrap_or_default();
    // names bound to a whole canonical value: the canon's own result (#c, #%c, scalar of `canon P %m x`) and scalars it
    // was copied into with `ap`; such a value carries the tetraplet of the peer the canon instruction designates
    let mut canon_peer: BTreeMap<String, String> = BTreeMap::new();
    script::walk(&cx.world.script.ast, &mut |x| {
        if let I::Canon { peer: script::PeerRef::Name(p), dst, .. } = x {
            canon_peer.insert(dst.clone(), name_to_id(p));
        }
    });
    script::walk(&cx.world.script.ast, &mut |x| {
        if let I::Ap { src: script::Arg::Canon(c) | script::Arg::CanonMap(c), dst } = x {
            if let Some(p) = canon_peer.get(c).cloned() {
                canon_peer.insert(dst.clone(), p);
            }
        }
    });
    for (i, a) in args.iter().enumerate() {
        let val: Value = serde_json::from_str(&r.args[i]).unwrap_or(Value::Null);
        let tets = &r.tetraplets[i];
        let expect_elem = |v: &Value, extra_lens: &str| -> Option<(String, String, String, String)> {
            // values produced by oracle calls embed producer peer and function
            let p = v["p"].as_str()?;
            let f = v["f"].as_str()?;
            Some((name_to_id(p), "s".to_string(), f.to_string(), extra_lens.to_string()))
        };
        match a {
            script::Arg::Canon(_) => {
                let Some(arr) = val.as_array() else { continue };
                if arr.len() != tets.len() {
                    out.push(viol("C17/canon-argument-tetraplet-count", format!("{} elements, {} tetraplets", arr.len(), tets.len())));
                    continue;
                }
                for (e, t) in arr.iter().zip(tets.iter()) {
                    this.args_checked += 1;
                    let exp = match expect_elem(e, "") {
                        Some(x) => x,
                        None => {
                            // literal appended by ap: init peer, empty service and function
                            if e.is_string() {
                                (cx.world.part.init_peer_id.clone(), String::new(), String::new(), String::new())
                            } else {
                                continue;
                            }
                        }
                    };
                    if exp.0 != cx.world.peers[peer].id {
                        this.foreign_producer_args += 1;
                    }
                    if *t != exp {
                        out.push(viol("C17/canon-element-tetraplet", format!("({} {}) argument {i} element {e}: tetraplet {t:?}, expected {exp:?}", r.service, r.function)));
                    }
                }
            }
            script::Arg::CanonLens(_, p) => {
                this.args_checked += 1;
                if tets.len() != 1 {
                    out.push(viol("C17/lens-argument-tetraplet-count", format!("{} tetraplets", tets.len())));
                    continue;
                }
                // `#c.$.[0]`: the element's own tetraplet with the rest of the path after the index
                let rest = p.splitn(3, '.').nth(2).map(|s| format!(".$.{s}")).unwrap_or_default();
                let _ = rest;
                if let Some(exp) = expect_elem(&val, "") {
                    if exp.0 != cx.world.peers[peer].id {
                        this.foreign_producer_args += 1;
                    }
                    let t = &tets[0];
                    if (t.0.clone(), t.1.clone(), t.2.clone()) != (exp.0.clone(), exp.1.clone(), exp.2.clone()) {
                        out.push(viol("C17/canon-lens-tetraplet", format!("({} {}) argument {i}: tetraplet {t:?}, expected producer {exp:?}", r.service, r.function)));
                    }
                }
            }
            script::Arg::CanonMapLens(c, path) if canon_peer.contains_key(c) => {
                // `#%c.$.key`: the group of one key, attributed to the canonicalizing peer, lens = the path
                this.args_checked += 1;
                let exp = (canon_peer[c].clone(), String::new(), String::new(), format!(".${path}"));
                if exp.0 != cx.world.peers[peer].id {
                    this.foreign_producer_args += 1;
                }
                if tets.len() != 1 || tets[0] != exp {
                    out.push(viol("C17/whole-canon-tetraplet", format!("({} {}) argument {i} (`{c}.${path}`): tetraplets {tets:?}, expected [{exp:?}] (the peer that canonicalized)", r.service, r.function)));
                }
            }
            script::Arg::Var(x) if canon_peer.contains_key(x) => {
                // a scalar holding a whole canonical stream / map
                this.args_checked += 1;
                let exp = (canon_peer[x].clone(), String::new(), String::new(), String::new());
                if exp.0 != cx.world.peers[peer].id {
                    this.foreign_producer_args += 1;
                }
                if tets.len() != 1 || tets[0] != exp {
                    out.push(viol("C17/whole-canon-tetraplet", format!("({} {}) argument {i} (scalar `{x}` holding a canonical value): tetraplets {tets:?}, expected [{exp:?}] (the peer that canonicalized)", r.service, r.function)));
                }
            }
            script::Arg::Var(_) => {
                // fold iterator over a stream: the value's own producer
                this.args_checked += 1;
                if let Some(exp) = expect_elem(&val, "") {
                    if tets.len() != 1 {
                        out.push(viol("C17/scalar-argument-tetraplet-count", format!("{} tetraplets", tets.len())));
                        continue;
                    }
                    if exp.0 != cx.world.peers[peer].id {
                        this.foreign_producer_args += 1;
                    }
                    let t = &tets[0];
                    if (t.0.clone(), t.1.clone(), t.2.clone()) != (exp.0.clone(), exp.1.clone(), exp.2.clone()) {
                        out.push(viol("C17/iterator-tetraplet", format!("({} {}) argument {i} value {val}: tetraplet {t:?}, expected producer {exp:?}", r.service, r.function)));
                    }
                }
            }
            _ => {}
        }
    }
    out
}

impl Monitor for C17 {
    fn on_run(&mut self, cx: &mut Cx, rid: RunId) -> Vec<Viol> {
        let run = cx.runs[rid as usize].clone();
        let mut out = vec![];
        if run.requests.is_empty() {
            return out;
        }
        if self.stream_mode {
            for (_, rq) in &run.requests {
                if self.seen.insert((run.peer, *rq)) {
                    out.extend(check_stream_tetraplets(cx, run.peer, *rq, self));
                }
            }
            return out;
        }
        let exp = self.r.get(cx);
        if let Some(u) = &exp.unsupported {
            return vec![viol("MACHINERY/refeval-unsupported", u.clone())];
        }
        for (_, rq) in &run.requests {
            if !self.seen.insert((run.peer, *rq)) {
                continue;
            }
            let r = cx.reqs[*rq as usize].clone();
            // the expected call with the same peer/function/arguments (C16 reports it if there is none)
            let Some(e) = exp.calls.iter().find(|e| !e.wild && matches_exp(cx, run.peer, *rq, e)) else { continue };
            if r.tetraplets.len() != e.tets.len() {
                out.push(viol("C17/tetraplet-list-length", format!("({} {}): {} tetraplet lists for {} arguments", r.service, r.function, r.tetraplets.len(), e.tets.len())));
                continue;
            }
            for (i, (got, want)) in r.tetraplets.iter().zip(e.tets.iter()).enumerate() {
                self.args_checked += 1;
                if want.iter().any(|t| t.0 != cx.world.peers[run.peer].id) {
                    self.foreign_producer_args += 1;
                }
                if got != want {
                    let kind = if got.len() != want.len() {
                        "count"
                    } else if got.iter().zip(want.iter()).any(|(g, w)| (&g.0, &g.1, &g.2) != (&w.0, &w.1, &w.2)) {
                        "producer"
                    } else {
                        "lens"
                    };
                    out.push(viol(
                        &format!("C17/argument-tetraplet-{kind}"),
                        format!("peer {} ({} {}) argument {i} = {}: tetraplets {got:?}, expected {want:?}", cx.world.peers[run.peer].name, r.service, r.function, r.args[i]),
                    ));
                }
            }
        }
        out
    }
    fn nontrivial(&self) -> u64 {
        self.foreign_producer_args
    }
    fn extra(&self) -> Value {
        json!({"arguments_checked": self.args_checked})
    }
}

// ---------------------------------------------------------------------------------------------
// C05

pub struct C05 {
    r: Ref,
    use_ref: bool,
    pub revisits_with_pending: u64,
    pub recorded_checks: u64,
    cache: HashMap<(BlobId, usize, ReqId), usize>,
    done: std::collections::HashSet<(BlobId, usize, Vec<ReqId>, Vec<u32>, Vec<ReqId>)>,
}

impl C05 {
    pub fn new(use_ref: bool) -> C05 {
        C05 { r: Ref::new(), use_ref, revisits_with_pending: 0, recorded_checks: 0, cache: HashMap::new(), done: Default::default() }
    }
    fn count_states(&mut self, cx: &Cx, blob: BlobId, peer: usize, rq: ReqId) -> usize {
        if let Some(n) = self.cache.get(&(blob, peer, rq)) {
            return *n;
        }
        let n = match cx.dec(blob) {
            Some(d) => {
                let ans = cx.world.oracle.answer(&cx.world.peers[peer].name, &cx.reqs[rq as usize]);
                count_for_peer(&d, &expectation(&ans), &cx.world.peers[peer].id)
            }
            None => 0,
        };
        self.cache.insert((blob, peer, rq), n);
        n
    }
}

/// States carrying the expected answer *and* attributed to `peer_id` (a literal `ap` of an equal value elsewhere does not count).
fn count_for_peer(d: &Dec, exp: &crate::mon_local::Expect, peer_id: &str) -> usize {
    find_states(d, exp)
        .into_iter()
        .filter(|pos| match &d.trace[*pos] {
            Ent::Call(CallSt::Exec { kind, cid, .. }) if *kind != 'u' => d.owner_of_call(cid).as_deref() == Some(peer_id),
            Ent::Call(CallSt::Failed { cid }) => d.owner_of_call(cid).as_deref() == Some(peer_id),
            _ => true,
        })
        .count()
}

impl Monitor for C05 {
    fn on_transition(&mut self, cx: &mut Cx, pre: &State, act: &Action, rid: RunId, post: &State) -> Vec<Viol> {
        let mut out = vec![];
        let run = cx.runs[rid as usize].clone();
        let p = run.peer;
        if matches!(act, Action::Deliver { .. } | Action::DeliverReturn { .. }) && !pre.pending[p].is_empty() {
            self.revisits_with_pending += 1;
        }
        if run.panic.is_some() || !matches!(class(run.ret_code), "ok" | "catchable") {
            return out;
        }
        let pname = cx.world.peers[p].name.clone();
        // (1) at most once
        for (id, rq) in &run.requests {
            // a fold's last-instruction is a distinct call instance per generation run and has nothing to
            // tell the instances apart by; it is exempt from the at-most-once bookkeeping
            if cx.reqs[*rq as usize].function.starts_with("last") {
                continue;
            }
            let issued = post.ghosts.issued.get(&(p as u8, *rq)).cloned().unwrap_or(0);
            let allowed = if self.use_ref {
                let exp = self.r.get(cx);
                exp.calls.iter().filter(|e| matches_exp(cx, p, *rq, e)).count().max(1) as u32
            } else {
                1
            };
            let r = &cx.reqs[*rq as usize];
            if issued > allowed {
                let already_answered = pre.ghosts.answered.contains_key(&(p as u8, *rq));
                out.push(viol(
                    if already_answered { "C05/executed-call-requested-again" } else { "C05/pending-call-requested-again" },
                    format!("peer {pname} handed ({} {}) {:?} to its host {issued} times (new id {id}); allowed {allowed}", r.service, r.function, r.args),
                ));
            }
        }
        // (2) every answered result is recorded exactly once, now and in every later data of the peer
        let answered: Vec<ReqId> = post.ghosts.answered.keys().filter(|(q, _)| *q as usize == p).map(|(_, r)| *r).collect();
        let counts: Vec<u32> = answered.iter().map(|r| post.ghosts.answered[&(p as u8, *r)]).collect();
        let just: Vec<ReqId> = run.results.iter().map(|(_, x)| *x).collect();
        if !self.done.insert((run.out, p, answered.clone(), counts, just)) {
            return out;
        }
        for rq in answered {
            if cx.reqs[rq as usize].function.starts_with("last") {
                continue;
            }
            self.recorded_checks += 1;
            let n = self.count_states(cx, run.out, p, rq);
            let times = post.ghosts.answered[&(p as u8, rq)] as usize;
            let r = cx.reqs[rq as usize].clone();
            if n < times.min(1) {
                let just_now = run.results.iter().any(|(_, x)| *x == rq);
                out.push(viol(
                    if just_now { "C05/result-not-recorded" } else { "C05/recorded-result-lost-later" },
                    format!("peer {pname}: the result of ({} {}) {:?} was returned by the host but the peer's data holds {n} states for it", r.service, r.function, r.args),
                ));
            } else if n > times {
                out.push(viol("C05/result-recorded-more-than-once", format!("peer {pname}: the result of ({} {}) {:?} was returned {times} time(s) but the peer's data holds {n} states for it", r.service, r.function, r.args)));
            }
        }
        out
    }
    fn nontrivial(&self) -> u64 {
        self.revisits_with_pending
    }
    fn extra(&self) -> Value {
        json!({"recorded_exactly_once_checks": self.recorded_checks})
    }
}

// ---------------------------------------------------------------------------------------------
// C06

pub struct C06 {
    r: Ref,
    pub multi_pending_states: u64,
    pub bogus_runs: u64,
    pub ids_checked: u64,
}

impl C06 {
    pub fn new() -> C06 {
        C06 { r: Ref::new(), multi_pending_states: 0, bogus_runs: 0, ids_checked: 0 }
    }
}

impl Monitor for C06 {
    fn on_transition(&mut self, cx: &mut Cx, pre: &State, act: &Action, rid: RunId, post: &State) -> Vec<Viol> {
        let mut out = vec![];
        let run = cx.runs[rid as usize].clone();
        let p = run.peer;
        let pname = cx.world.peers[p].name.clone();
        if run.panic.is_some() {
            return out;
        }
        // freshness against the ghost (independent of the persisted lcid)
        for id in run.requests.keys() {
            self.ids_checked += 1;
            if *id <= pre.ghosts.max_id[p] {
                out.push(viol("C06/call-id-not-fresh", format!("peer {pname} handed out request id {id} although id {} was handed out before", pre.ghosts.max_id[p])));
            }
        }
        if matches!(class(run.ret_code), "ok" | "catchable" | "unprocessed") {
            if let Some(d) = cx.dec(run.out) {
                if d.lcid() < post.ghosts.max_id[p] {
                    out.push(viol("C06/persisted-last-id-behind", format!("peer {pname}: data stores last_call_request_id {} but id {} was handed out", d.lcid(), post.ghosts.max_id[p])));
                }
            }
        }
        // routing: every new request must be one RefEval makes with exactly these argument values; a result
        // applied to the wrong call shows up as wrong argument values downstream
        if !run.requests.is_empty() {
            let exp = self.r.get(cx);
            if exp.unsupported.is_none() {
                for (id, rq) in &run.requests {
                    if !exp.calls.iter().any(|e| matches_exp(cx, p, *rq, e)) {
                        let r = &cx.reqs[*rq as usize];
                        out.push(viol("C06/result-routed-to-wrong-call", format!("peer {pname} request {id} ({} {}) carries arguments {:?} that no correct routing of results produces", r.service, r.function, r.args)));
                    }
                }
            }
        }
        // a result supplied under an id the host really holds as pending must be applied, not reported as unprocessed
        if matches!(act, Action::Return { .. } | Action::DeliverReturn { .. }) && run.ret_code == crate::mon_local::codes::UNPROCESSED {
            out.push(viol("C06/result-for-a-pending-request-reported-as-unprocessed", format!("peer {pname}: the results {:?} answer requests the host was handed and never answered before, yet the run returned code 30000 ({})", run.results.iter().map(|(id, _)| *id).collect::<Vec<_>>(), run.error_message)));
        }
        // bogus ids
        if let Action::ReturnBogus { id, .. } = act {
            self.bogus_runs += 1;
            // same run without the bogus entry
            let base0 = cx.run(p, run.prev, run.cur, &[], &[]);
            let base_ok = cx.runs[base0 as usize].ret_code == 0;
            // an outcome has one code: where the run fails anyway the failure's code wins, so 30000 is only
            // demanded where the same run without the unknown id succeeds
            if base_ok && run.ret_code != crate::mon_local::codes::UNPROCESSED {
                out.push(viol("C06/unknown-id-not-reported", format!("peer {pname}: a result under id {id}, which matches no pending call, gave ret_code {} instead of 30000", run.ret_code)));
            }
            // same run without the bogus entry
            let base = cx.run(p, run.prev, run.cur, &[], &[]);
            let b = cx.runs[base as usize].clone();
            if b.out != run.out && base_ok {
                out.push(viol("C06/unknown-id-changed-data", format!("peer {pname}: data differs from the same run without the unknown id {id}")));
            }
            if let Some(d) = cx.dec(run.out) {
                let name = cx.world.peers[p].name.clone();
                for (_, rq) in &run.bogus {
                    let ans = cx.world.oracle.answer(&name, &cx.reqs[*rq as usize]);
                    if !find_states(&d, &expectation(&ans)).is_empty() {
                        out.push(viol("C06/unknown-id-applied-to-a-call", format!("peer {pname}: the value supplied under unknown id {id} appears in the data")));
                    }
                }
            }
            if !b.requests.keys().eq(run.requests.keys()) {
                out.push(viol("C06/unknown-id-changed-requests", String::new()));
            }
        }
        let _ = post;
        out
    }
    fn on_state(&mut self, _cx: &mut Cx, st: &State, _info: &StateInfo) -> Vec<Viol> {
        if st.pending.iter().any(|p| p.len() >= 2) {
            self.multi_pending_states += 1;
        }
        vec![]
    }
    fn nontrivial(&self) -> u64 {
        self.multi_pending_states.min(1) * (self.multi_pending_states + self.bogus_runs)
    }
    fn extra(&self) -> Value {
        json!({"states_with_two_or_more_pending_requests": self.multi_pending_states, "bogus_id_runs": self.bogus_runs, "ids_checked": self.ids_checked})
    }
}

// ---------------------------------------------------------------------------------------------
// C19

pub struct C19 {
    r: Ref,
    use_ref: bool,
    pub runs_checked: u64,
    pub multi_sent_runs: u64,
    pub quiescent_checked: u64,
    merged: std::collections::HashSet<Vec<BlobId>>,
}

impl C19 {
    pub fn new(use_ref: bool) -> C19 {
        C19 { r: Ref::new(), use_ref, runs_checked: 0, multi_sent_runs: 0, quiescent_checked: 0, merged: Default::default() }
    }
}

fn literal_sites(ast: &I) -> (BTreeMap<String, Option<String>>, Vec<Option<String>>) {
    // function -> literal peer name (None = computed target); canon sites' peers
    let mut calls = BTreeMap::new();
    let mut canons = vec![];
    script::walk(ast, &mut |x| match x {
        I::Call { peer, func, .. } => {
            calls.insert(func.clone(), if let PeerRef::Name(n) = peer { Some(n.clone()) } else { None });
        }
        I::Canon { peer, .. } => canons.push(if let PeerRef::Name(n) = peer { Some(n.clone()) } else { None }),
        _ => {}
    });
    (calls, canons)
}

fn count_sent_by(d: &Dec, me: &str) -> (usize, usize) {
    let mut c = 0;
    let mut k = 0;
    for e in &d.trace {
        match e {
            Ent::Call(CallSt::Sent { peer, call_id: None }) if peer == me => c += 1,
            Ent::Canon(CanonSt::Sent(peer)) if peer == me => k += 1,
            _ => {}
        }
    }
    (c, k)
}

impl Monitor for C19 {
    fn on_run(&mut self, cx: &mut Cx, rid: RunId) -> Vec<Viol> {
        let v = view(cx, rid);
        let mut out = vec![];
        if v.rec.panic.is_some() || !matches!(class(v.rec.ret_code), "ok" | "catchable") {
            return out;
        }
        self.runs_checked += 1;
        let p = v.rec.peer;
        let me = cx.world.peers[p].id.clone();
        let pname = cx.world.peers[p].name.clone();
        let (sites, canons) = literal_sites(&cx.world.script.ast);
        // (1) requests only for calls addressed to this peer
        for (id, rq) in &v.rec.requests {
            let r = cx.reqs[*rq as usize].clone();
            let ok = if self.use_ref {
                let exp = self.r.get(cx);
                exp.unsupported.is_some() || exp.calls.iter().any(|e| e.func == r.function && e.peer == pname)
            } else {
                match sites.get(&r.function) {
                    Some(Some(n)) => *n == pname,
                    _ => true,
                }
            };
            if !ok {
                out.push(viol("C19/call-request-on-non-addressed-peer", format!("peer {pname} issued request {id} for ({} {}) which is addressed to another peer", r.service, r.function)));
            }
        }
        let Some(dec) = &v.out else { return out };
        // (2) results first appearing in this run are attributed to this peer; canon only at its addressed peer
        let (mp, mc) = (v.prev.result_multiset(), v.cur.result_multiset());
        for (k, _) in dec.result_multiset() {
            if mp.contains_key(&k) || mc.contains_key(&k) {
                continue;
            }
            let cid = k.splitn(2, ':').nth(1).unwrap_or("");
            if k.starts_with("canon:") {
                let owner = dec.canon(cid).and_then(|c| c.tetraplet).map(|t| t.0).unwrap_or_default();
                if owner != me {
                    out.push(viol("C19/canon-executed-on-behalf-of-other-peer", format!("peer {pname} created canon result {cid} attributed to {}", cx.world.peer_name_by_id(&owner))));
                }
                if !canons.is_empty() && !canons.iter().any(|c| c.as_deref() == Some(pname.as_str()) || c.is_none()) {
                    out.push(viol("C19/canon-on-non-addressed-peer", format!("peer {pname} canonicalized a stream although no canon is addressed to it")));
                }
            } else if k.starts_with("exec-a:") || k.starts_with("failed:") {
                let owner = dec.owner_of_call(cid).unwrap_or_default();
                if owner != me {
                    out.push(viol("C19/call-result-created-for-other-peer", format!("peer {pname} created call result {cid} attributed to {}", cx.world.peer_name_by_id(&owner))));
                }
            }
        }
        // (3) next peers: never self, no duplicates
        let np = &v.rec.next_peers;
        if np.iter().any(|x| *x == me) {
            out.push(viol("C19/next-peers-contain-self", format!("peer {pname}: {:?}", np.iter().map(|x| cx.world.peer_name_by_id(x)).collect::<Vec<_>>())));
        }
        let uniq: BTreeSet<&String> = np.iter().collect();
        if uniq.len() != np.len() {
            out.push(viol("C19/next-peers-contain-duplicates", format!("peer {pname}: {:?}", np.iter().map(|x| cx.world.peer_name_by_id(x)).collect::<Vec<_>>())));
        }
        // (4) newly marked "sent by me" entries need somewhere to go
        let (c0, k0) = count_sent_by(&v.prev, &me);
        let (c1, k1) = count_sent_by(&v.cur, &me);
        let (c2, k2) = count_sent_by(dec, &me);
        let newly = (c2.saturating_sub(c0.max(c1))) + (k2.saturating_sub(k0.max(k1)));
        if newly >= 2 {
            self.multi_sent_runs += 1;
        }
        if newly > 0 && np.is_empty() {
            out.push(viol("C19/marked-sent-but-no-next-peer", format!("peer {pname} marked {newly} call/canon entries as sent by itself but returned no next peers")));
        }
        out
    }
    fn on_state(&mut self, cx: &mut Cx, st: &State, info: &StateInfo) -> Vec<Viol> {
        let mut out = vec![];
        if !info.quiescent {
            return out;
        }
        if self.use_ref {
            // a call that waits forever for a variable the sequential reading never defines legitimately stays
            // "sent": the quiescence part is only demanded of scripts whose sequential reading completes
            let exp = self.r.get(cx);
            if exp.unsupported.is_some() || exp.waits > 0 || exp.fin != Some(crate::refeval::Fin::Complete) {
                return out;
            }
        }
        if !self.merged.insert(st.prev.clone()) {
            return out;
        }
        self.quiescent_checked += 1;
        // merge every peer's final data at the observer
        let obs = cx.world.nact;
        if obs >= cx.world.peers.len() {
            return out;
        }
        let mut acc: Vec<u8> = vec![];
        for b in &st.prev {
            let cur = cx.bytes(*b).to_vec();
            match cx.run_bytes(obs, &acc, &cur, &Default::default()) {
                Ok(o) => acc = o.data,
                Err(_) => return out,
            }
        }
        if let Ok(d) = crate::data::decode(&acc) {
            let left: Vec<String> = d
                .trace
                .iter()
                .enumerate()
                .filter_map(|(i, e)| match e {
                    Ent::Call(CallSt::Sent { peer, .. }) => Some(format!("call at {i} sent by {}", cx.world.peer_name_by_id(peer))),
                    Ent::Canon(CanonSt::Sent(peer)) => Some(format!("canon at {i} sent by {}", cx.world.peer_name_by_id(peer))),
                    _ => None,
                })
                .collect();
            // entries an observer itself marks (it is not addressed by anything) are attributed to the observer
            let obs_id = cx.world.peers[obs].id.clone();
            let left: Vec<String> = left.into_iter().filter(|s| !s.ends_with(&format!("sent by {}", cx.world.peer_name_by_id(&obs_id)))).collect();
            if !left.is_empty() {
                let kind = if left.iter().any(|s| s.starts_with("canon")) { "canon" } else { "call" };
                let cause = if script::par_escaping_dependency(&cx.world.script.ast) { "argument-defined-inside-a-par-it-is-used-outside-of" } else { "other" };
                out.push(viol(&format!("C19/{kind}-left-sent-but-unexecuted-at-quiescence/{cause}"), format!("after everything was delivered: {left:?}")));
            }
        }
        out
    }
    fn nontrivial(&self) -> u64 {
        self.multi_sent_runs
    }
    fn extra(&self) -> Value {
        json!({"runs_checked": self.runs_checked, "quiescent_states_merged_at_observer": self.quiescent_checked})
    }
}
