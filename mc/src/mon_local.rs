//! Run-local monitors (evaluated once per distinct run of the interpreter): C02 C03 C04 C07 C09 C10 C12 C20.

use crate::data::{CallSt, CanonSt, Dec, Ent};
use crate::host::{self, RawResults};
use crate::netmc::{viol, BlobId, Cx, Monitor, RunId, RunRec, Viol, EMPTY};
use crate::script::{self, I};

use air_interpreter_interface::CallServiceResult;
use serde_json::{json, Value};
use std::collections::{BTreeMap, BTreeSet, HashSet};
use std::rc::Rc;

// ---------------------------------------------------------------------------------------------
// error codes (positions of the public error enums; pinned by `selftest_codes`)
pub mod codes {
    pub const AIR_PARSE: i64 = 1;
    pub const DATA_DE: i64 = 2;
    pub const ENVELOPE_DE: i64 = 3;
    pub const ENVELOPE_DE_VERSIONS: i64 = 4;
    pub const CALL_RESULTS_DE: i64 = 5;
    pub const UNSUPPORTED_VERSION: i64 = 6;
    pub const MALFORMED_KEYPAIR: i64 = 7;
    pub const CID_STORE_VERIFICATION: i64 = 8;
    pub const DATA_SIGNATURE: i64 = 9;
    pub const SIZE_LIMITS: i64 = 10;

    pub const LOCAL_SERVICE_ERROR: i64 = 10000;
    pub const MATCH_NOT_EQUAL: i64 = 10001;
    pub const MISMATCH_EQUAL: i64 = 10002;
    pub const VARIABLE_NOT_FOUND: i64 = 10003;
    pub const INCOMPATIBLE_JVALUE: i64 = 10004;
    pub const FOLD_NON_ARRAY: i64 = 10005;
    pub const USER_ERROR: i64 = 10006;
    pub const LAMBDA_APPLIER: i64 = 10007;
    pub const INVALID_ERROR_OBJECT: i64 = 10008;
    pub const NOT_INIT_AFTER_NEW: i64 = 10009;
    pub const LENGTH_NOT_ARRAY: i64 = 10010;
    pub const NON_STRING_TRIPLET: i64 = 10011;

    pub const TRACE_ERROR: i64 = 20000;
    pub const GENERATION_COMPACTIFICATION: i64 = 20001;
    pub const FOLD_STATE_NOT_FOUND: i64 = 20003;
    pub const ITERABLE_SHADOWING: i64 = 20004;
    pub const MULTIPLE_ITERABLE_VALUES: i64 = 20005;
    pub const CALL_RESULT_NOT_CORRESPOND: i64 = 20006;
    pub const SHADOWING_NOT_ALLOWED: i64 = 20007;
    pub const SCALARS_STATE_CORRUPTED: i64 = 20008;
    pub const VALUE_FOR_CID_NOT_FOUND: i64 = 20010;
    pub const STREAM_NO_SUCH_GENERATION: i64 = 20011;
    pub const MALFORMED_CALL_SERVICE_FAILED: i64 = 20012;
    pub const STREAM_SIZE_LIMIT: i64 = 20013;
    pub const PARAMETERS_MISMATCH: i64 = 20017;
    pub const UNPROCESSED: i64 = 30000;
}

/// Pins the hard-coded codes against the public `ToErrorCode` of constructible public error values.
pub fn selftest_codes() -> Result<(), String> {
    use air::{CatchableError, PreparationError, ToErrorCode, UncatchableError};
    let checks: Vec<(i64, i64, &str)> = vec![
        (PreparationError::AIRParseError(String::new()).to_error_code(), codes::AIR_PARSE, "AIRParseError"),
        (CatchableError::MatchValuesNotEqual.to_error_code(), codes::MATCH_NOT_EQUAL, "MatchValuesNotEqual"),
        (CatchableError::MismatchValuesEqual.to_error_code(), codes::MISMATCH_EQUAL, "MismatchValuesEqual"),
        (CatchableError::VariableNotFound(String::new()).to_error_code(), codes::VARIABLE_NOT_FOUND, "VariableNotFound"),
        (
            CatchableError::VariableWasNotInitializedAfterNew(String::new()).to_error_code(),
            codes::NOT_INIT_AFTER_NEW,
            "VariableWasNotInitializedAfterNew",
        ),
        (
            CatchableError::LocalServiceError(1, Rc::new(String::new())).to_error_code(),
            codes::LOCAL_SERVICE_ERROR,
            "LocalServiceError",
        ),
        (UncatchableError::FoldStateNotFound(String::new()).to_error_code(), codes::FOLD_STATE_NOT_FOUND, "FoldStateNotFound"),
        (UncatchableError::IterableShadowing(String::new()).to_error_code(), codes::ITERABLE_SHADOWING, "IterableShadowing"),
        (
            UncatchableError::ShadowingIsNotAllowed(String::new()).to_error_code(),
            codes::SHADOWING_NOT_ALLOWED,
            "ShadowingIsNotAllowed",
        ),
        (UncatchableError::StreamSizeLimitExceeded.to_error_code(), codes::STREAM_SIZE_LIMIT, "StreamSizeLimitExceeded"),
        (
            UncatchableError::ValueForCidNotFound("x", "c".into()).to_error_code(),
            codes::VALUE_FOR_CID_NOT_FOUND,
            "ValueForCidNotFound",
        ),
        (
            UncatchableError::InstructionParametersMismatch { param: "p", expected_value: String::new(), stored_value: String::new() }
                .to_error_code(),
            codes::PARAMETERS_MISMATCH,
            "InstructionParametersMismatch",
        ),
    ];
    for (got, want, name) in checks {
        if got != want {
            return Err(format!("error code table out of date: {name} is {got}, table says {want}"));
        }
    }
    Ok(())
}

// ---------------------------------------------------------------------------------------------
// shared helpers

pub struct RunView {
    pub rec: RunRec,
    pub prev: Rc<Dec>,
    pub cur: Rc<Dec>,
    pub out: Option<Rc<Dec>>,
}

pub fn view(cx: &Cx, rid: RunId) -> RunView {
    let rec = cx.runs[rid as usize].clone();
    RunView { prev: cx.dec(rec.prev).expect("prev decodes"), cur: cx.dec(rec.cur).expect("cur decodes"), out: cx.dec(rec.out), rec }
}

/// What state an answer must leave in the trace.
pub enum Expect {
    Ok(Value),
    Failed { ret_code: i64, message_contains: String, exact: Option<Value> },
}

pub fn expectation(ans: &CallServiceResult) -> Expect {
    if ans.ret_code != 0 {
        return Expect::Failed {
            ret_code: ans.ret_code as i64,
            message_contains: ans.result.clone(),
            exact: Some(json!({"ret_code": ans.ret_code, "message": ans.result})),
        };
    }
    match serde_json::from_str::<Value>(&ans.result) {
        Ok(v) => Expect::Ok(v),
        Err(_) => Expect::Failed { ret_code: i32::MAX as i64, message_contains: ans.result.clone(), exact: None },
    }
}

pub fn value_cid(v: &Value) -> String {
    let jv: air_interpreter_value::JValue = v.clone().into();
    air_interpreter_cid::value_to_json_cid(&jv).expect("cid").get_inner().to_string()
}

/// Positions in `dec`'s trace holding a state for the expected answer.
pub fn find_states(dec: &Dec, exp: &Expect) -> Vec<usize> {
    let mut hits = vec![];
    for (pos, e) in dec.trace.iter().enumerate() {
        match (e, exp) {
            (Ent::Call(CallSt::Exec { kind, cid, .. }), Expect::Ok(v)) => {
                if *kind == 'u' {
                    if *cid == value_cid(v) {
                        hits.push(pos);
                    }
                } else if let Some(agg) = dec.srv(cid) {
                    if let Some(text) = agg.value {
                        if serde_json::from_str::<Value>(&text).ok().as_ref() == Some(v) {
                            hits.push(pos);
                        }
                    }
                }
            }
            (Ent::Call(CallSt::Failed { cid }), Expect::Failed { ret_code, message_contains, exact }) => {
                if let Some(text) = dec.srv(cid).and_then(|a| a.value) {
                    if let Ok(v) = serde_json::from_str::<Value>(&text) {
                        let ok = match exact {
                            Some(x) => &v == x,
                            None => {
                                v["ret_code"].as_i64() == Some(*ret_code)
                                    && v["message"].as_str().map(|m| m.contains(message_contains.as_str())).unwrap_or(false)
                            }
                        };
                        if ok {
                            hits.push(pos);
                        }
                    }
                }
            }
            _ => {}
        }
    }
    hits
}

fn answers(cx: &Cx, rec: &RunRec) -> Vec<(u32, CallServiceResult)> {
    let name = &cx.world.peers[rec.peer].name;
    rec.results.iter().map(|(id, rq)| (*id, cx.world.oracle.answer(name, &cx.reqs[*rq as usize]))).collect()
}

fn class(code: i64) -> &'static str {
    host::outcome_code_class(code)
}

// ---------------------------------------------------------------------------------------------
// C02

#[derive(Default)]
pub struct C02 {
    pub by_class: BTreeMap<String, u64>,
    pub late_uncatchable: u64,
}

pub fn c02_contract(cx: &Cx, v: &RunView, supplied: &[(u32, CallServiceResult)]) -> Vec<Viol> {
    let mut out = vec![];
    let r = &v.rec;
    if r.panic.is_some() {
        return out; // C01's business
    }
    match class(r.ret_code) {
        "prep" | "uncatchable" => {
            if !r.out_bytes_eq_prev {
                out.push(viol("C02/failed-run-data-differs-from-prev", format!("ret_code {} returned data that is not the previous data byte for byte ({} bytes)", r.ret_code, r.out_len)));
            }
            if !r.next_peers.is_empty() {
                out.push(viol("C02/failed-run-has-next-peers", format!("ret_code {} with next_peer_pks {:?}", r.ret_code, r.next_peers)));
            }
            if !r.requests.is_empty() || r.requests_err.is_some() {
                out.push(viol("C02/failed-run-has-call-requests", format!("ret_code {} with call requests {:?} / {:?}", r.ret_code, r.requests.keys(), r.requests_err)));
            }
        }
        "ok" | "catchable" | "unprocessed" => {
            if r.out_len == 0 {
                out.push(viol("C02/new-data-empty", format!("ret_code {} returned empty data", r.ret_code)));
                return out;
            }
            let Some(dec) = &v.out else {
                out.push(viol("C02/new-data-undecodable", format!("ret_code {} returned data that does not decode: {:?}", r.ret_code, cx.blobs[r.out as usize].dec.as_ref().err())));
                return out;
            };
            if let Some(e) = &r.requests_err {
                out.push(viol("C02/call-requests-undecodable", e.clone()));
            }
            if class(r.ret_code) != "unprocessed" {
                for (id, ans) in supplied {
                    let exp = expectation(ans);
                    if find_states(dec, &exp).is_empty() {
                        out.push(viol(
                            "C02/executed-result-missing-from-data",
                            format!("result for call id {id} ({}) was supplied and the run returned code {}, but no state carries it", ans.result, r.ret_code),
                        ));
                    }
                }
            }
            if matches!(class(r.ret_code), "ok" | "unprocessed") {
                let mo = dec.result_multiset();
                for (src, d) in [("prev", &v.prev), ("current", &v.cur)] {
                    for (k, n) in d.result_multiset() {
                        if mo.get(&k).cloned().unwrap_or(0) < n {
                            out.push(viol("C02/new-data-lost-result", format!("{k} x{n} from {src} data is missing in the returned data")));
                        }
                    }
                }
            }
        }
        _ => out.push(viol("C02/code-outside-ranges", format!("ret_code {} ({})", r.ret_code, r.error_message))),
    }
    out
}

impl Monitor for C02 {
    fn on_run(&mut self, cx: &mut Cx, rid: RunId) -> Vec<Viol> {
        let v = view(cx, rid);
        *self.by_class.entry(class(v.rec.ret_code).to_string()).or_insert(0) += 1;
        if class(v.rec.ret_code) == "uncatchable" && !v.rec.results.is_empty() {
            self.late_uncatchable += 1;
        }
        let sup = answers(cx, &v.rec);
        c02_contract(cx, &v, &sup)
    }
    fn nontrivial(&self) -> u64 {
        self.by_class.iter().filter(|(k, _)| k.as_str() != "ok").map(|(_, n)| *n).sum()
    }
    fn extra(&self) -> Value {
        json!({"runs_by_code_class": self.by_class, "uncatchable_after_results_applied": self.late_uncatchable})
    }
}

// ---------------------------------------------------------------------------------------------
// C03

#[derive(Default)]
pub struct C03 {
    pub checked: u64,
    pub nontrivial: u64,
    pub observer_runs: u64,
}

/// DataVerify of DESIGN.md section 6, built from public pieces only.
pub fn data_verify(dec: &Dec, particle_id: &str) -> Result<(), (String, String)> {
    use air_interpreter_data::verification::DataVerifier;
    let iv = semver::Version::parse(&dec.interpreter_version).map_err(|e| ("version-unparsable".to_string(), e.to_string()))?;
    if &iv < air::min_supported_version() {
        return Err(("unsupported-version".into(), format!("{iv}")));
    }
    dec.data.cid_info.verify().map_err(|e| ("cid-store-does-not-verify".to_string(), e.to_string()))?;
    // every cid referenced from the trace resolves
    for (pos, e) in dec.trace.iter().enumerate() {
        match e {
            Ent::Call(CallSt::Exec { kind, cid, .. }) if *kind != 'u' => match dec.srv(cid) {
                Some(a) if a.value.is_some() && a.tetraplet.is_some() => {}
                _ => return Err(("trace-cid-unresolvable".into(), format!("call result {cid} at position {pos}"))),
            },
            Ent::Call(CallSt::Failed { cid }) => match dec.srv(cid) {
                Some(a) if a.value.is_some() && a.tetraplet.is_some() => {}
                _ => return Err(("trace-cid-unresolvable".into(), format!("failed call {cid} at position {pos}"))),
            },
            Ent::Canon(CanonSt::Exec(cid)) => match dec.canon(cid) {
                Some(c) if c.tetraplet.is_some() && c.elems.iter().all(|e| e.value.is_some() && e.tetraplet.is_some()) => {}
                _ => return Err(("trace-cid-unresolvable".into(), format!("canon result {cid} at position {pos}"))),
            },
            _ => {}
        }
    }
    let r = std::panic::catch_unwind(std::panic::AssertUnwindSafe(|| {
        let dv = DataVerifier::new(&dec.data, particle_id).map_err(|e| ("peer-without-signature".to_string(), e.to_string()))?;
        dv.verify().map_err(|e| ("signature-does-not-verify".to_string(), e.to_string()))
    }));
    match r {
        Ok(x) => x,
        Err(_) => Err(("verifier-panicked".into(), host::take_last_panic().unwrap_or_default())),
    }
}

impl Monitor for C03 {
    fn on_run(&mut self, cx: &mut Cx, rid: RunId) -> Vec<Viol> {
        let v = view(cx, rid);
        let mut out = vec![];
        if v.rec.panic.is_some() || !matches!(class(v.rec.ret_code), "ok" | "catchable" | "unprocessed") {
            return out;
        }
        let Some(dec) = &v.out else {
            return vec![viol("C03/data-undecodable", format!("{:?}", cx.blobs[v.rec.out as usize].dec.as_ref().err()))];
        };
        self.checked += 1;
        let me = cx.world.peers[v.rec.peer].id.clone();
        // non-trivial: output has a result of the producing peer that neither input has
        let own = |d: &Dec| d.peer_cids().get(&me).cloned().unwrap_or_default();
        let (o, p, c) = (own(dec), own(&v.prev), own(&v.cur));
        let has_new = o.iter().any(|x| !p.contains(x) && !c.contains(x));
        if has_new {
            self.nontrivial += 1;
        }
        // which instruction kind produced the latest own result (for the signature of a finding)
        let kind_hint = {
            let name = &cx.world.peers[v.rec.peer].name;
            let mut k = "call";
            for (_, rq) in &v.rec.results {
                let ans = cx.world.oracle.answer(name, &cx.reqs[*rq as usize]);
                if ans.ret_code == 0 && serde_json::from_str::<Value>(&ans.result).is_err() {
                    k = "non-json-service-answer";
                }
            }
            k
        };
        if let Err((tag, detail)) = data_verify(dec, &cx.world.part.particle_id) {
            out.push(viol(&format!("C03/{tag}/{kind_hint}"), format!("data produced by {} (ret_code {}): {detail}", cx.world.peers[v.rec.peer].name, v.rec.ret_code)));
        }
        if dec.peer_cids().contains_key(&me) {
            let pk = cx.world.peers[v.rec.peer].kp.public();
            if dec.data.signatures.get(&pk).is_none() {
                out.push(viol(&format!("C03/own-signature-missing/{kind_hint}"), "producing peer has results but no signature entry".into()));
            }
        }
        // operational acceptance by a non-participating peer with empty prev
        if cx.world.peers.len() > cx.world.nact {
            let obs = cx.world.nact;
            let bytes = cx.bytes(v.rec.out).to_vec();
            self.observer_runs += 1;
            match cx.run_bytes(obs, &[], &bytes, &RawResults::new()) {
                Ok(o) => {
                    if class(o.ret_code) == "prep" {
                        out.push(viol(
                            &format!("C03/rejected-by-other-peer/code-{}/{kind_hint}", o.ret_code),
                            format!("observer rejects data produced by {}: {} {}", cx.world.peers[v.rec.peer].name, o.ret_code, o.error_message),
                        ));
                    }
                }
                Err(p) => out.push(viol(&format!("C03/observer-panicked/{kind_hint}"), p)),
            }
        }
        out
    }
    fn nontrivial(&self) -> u64 {
        self.nontrivial
    }
    fn extra(&self) -> Value {
        json!({"outputs_verified": self.checked, "observer_runs": self.observer_runs})
    }
}

// ---------------------------------------------------------------------------------------------
// C04

#[derive(Default)]
pub struct C04 {
    pub real_merges: u64,
    pub other_codes: BTreeMap<i64, u64>,
    pub allow_catchable: bool,
}

pub fn c04_forbidden(code: i64) -> Option<&'static str> {
    use codes::*;
    Some(match code {
        DATA_DE => "data-deserialization",
        ENVELOPE_DE | ENVELOPE_DE_VERSIONS => "envelope-deserialization",
        CID_STORE_VERIFICATION => "cid-store-verification",
        DATA_SIGNATURE => "data-signature-check",
        TRACE_ERROR => "trace-error",
        GENERATION_COMPACTIFICATION => "generation-compactification",
        FOLD_STATE_NOT_FOUND => "fold-state-not-found",
        CALL_RESULT_NOT_CORRESPOND => "call-result-not-correspond-to-instr",
        SCALARS_STATE_CORRUPTED => "scalars-state-corrupted",
        VALUE_FOR_CID_NOT_FOUND => "value-for-cid-not-found",
        STREAM_NO_SUCH_GENERATION => "stream-dont-have-such-generation",
        MALFORMED_CALL_SERVICE_FAILED => "malformed-call-service-failed",
        PARAMETERS_MISMATCH => "instruction-parameters-mismatch",
        UNPROCESSED => "unprocessed-call-results",
        _ => return None,
    })
}

fn trace_shape(d: &Dec) -> Vec<String> {
    d.trace
        .iter()
        .filter_map(|e| match e {
            Ent::Par(l, r) => Some(format!("p{l},{r}")),
            Ent::Fold(l) => Some(format!("f{:?}", l.iter().map(|x| x.descs.clone()).collect::<Vec<_>>())),
            _ => None,
        })
        .collect()
}

impl Monitor for C04 {
    fn on_run(&mut self, cx: &mut Cx, rid: RunId) -> Vec<Viol> {
        let v = view(cx, rid);
        if v.rec.panic.is_some() {
            return vec![];
        }
        if !v.prev.empty && !v.cur.empty && trace_shape(&v.prev) != trace_shape(&v.cur) {
            self.real_merges += 1;
        }
        let code = v.rec.ret_code;
        if let Some(name) = c04_forbidden(code) {
            return vec![viol(&format!("C04/{name}"), format!("peer {} ret_code {code}: {}", cx.world.peers[v.rec.peer].name, v.rec.error_message))];
        }
        if code != 0 && !(self.allow_catchable && class(code) == "catchable") {
            *self.other_codes.entry(code).or_insert(0) += 1;
        }
        vec![]
    }
    fn nontrivial(&self) -> u64 {
        self.real_merges
    }
    fn extra(&self) -> Value {
        json!({"other_nonzero_codes": self.other_codes})
    }
}

// ---------------------------------------------------------------------------------------------
// C09

#[derive(Default)]
pub struct C09 {
    pub both_sides: u64,
    pub comparisons: u64,
}

impl Monitor for C09 {
    fn on_run(&mut self, cx: &mut Cx, rid: RunId) -> Vec<Viol> {
        let v = view(cx, rid);
        let mut out = vec![];
        if v.rec.panic.is_some() || !matches!(class(v.rec.ret_code), "ok" | "unprocessed") {
            return out;
        }
        let Some(dec) = &v.out else { return out };
        let (mp, mc, mo) = (v.prev.result_multiset(), v.cur.result_multiset(), dec.result_multiset());
        if mp.keys().any(|k| !mc.contains_key(k)) && mc.keys().any(|k| !mp.contains_key(k)) {
            self.both_sides += 1;
        }
        let keys: BTreeSet<&String> = mp.keys().chain(mc.keys()).collect();
        for k in keys {
            self.comparisons += 1;
            let need = mp.get(k).cloned().unwrap_or(0).max(mc.get(k).cloned().unwrap_or(0));
            let have = mo.get(k).cloned().unwrap_or(0);
            if have < need {
                let kind = k.split(':').next().unwrap_or("");
                out.push(viol(&format!("C09/result-forgotten/{kind}"), format!("{k}: prev {} current {} output {have}", mp.get(k).cloned().unwrap_or(0), mc.get(k).cloned().unwrap_or(0))));
                continue;
            }
            // same content: the cid must resolve in the output stores
            let cid = k.splitn(2, ':').nth(1).unwrap_or("");
            let ok = if k.starts_with("exec-a:") || k.starts_with("failed:") {
                dec.srv(cid).map(|a| a.value.is_some() && a.tetraplet.is_some()).unwrap_or(false)
            } else if k.starts_with("canon:") {
                dec.canon(cid).map(|c| c.elems.iter().all(|e| e.value.is_some())).unwrap_or(false)
            } else {
                true
            };
            if !ok {
                out.push(viol("C09/result-content-unresolvable", format!("{k} is in the output trace but not in its stores")));
            }
        }
        out
    }
    fn nontrivial(&self) -> u64 {
        self.both_sides
    }
    fn extra(&self) -> Value {
        json!({"cid_comparisons": self.comparisons})
    }
}

// ---------------------------------------------------------------------------------------------
// C10 TraceGrammar

pub const GEN_STUB: u32 = 0xCAFEBABE;

/// Recursive-descent reader; returns Err(description) at the first malformed entry.
pub fn trace_grammar(t: &[Ent]) -> Result<(), String> {
    fn items(t: &[Ent], mut pos: usize, n: usize) -> Result<usize, String> {
        let end = pos + n;
        if end > t.len() {
            return Err(format!("range [{pos},{end}) exceeds the trace length {}", t.len()));
        }
        while pos < end {
            pos = item(t, pos, end)?;
        }
        if pos != end {
            return Err(format!("entries overrun their parent range: ended at {pos}, parent ends at {end}"));
        }
        Ok(pos)
    }
    fn item(t: &[Ent], pos: usize, limit: usize) -> Result<usize, String> {
        match &t[pos] {
            Ent::Call(CallSt::Exec { generation: Some(g), .. }) if *g == GEN_STUB => Err(format!("stream value at {pos} carries the placeholder generation")),
            Ent::Ap(gens) if gens.iter().any(|g| *g == GEN_STUB) => Err(format!("ap at {pos} carries the placeholder generation")),
            Ent::Call(_) | Ent::Ap(_) | Ent::Canon(_) => Ok(pos + 1),
            Ent::Par(l, r) => {
                let (l, r) = (*l as usize, *r as usize);
                if pos + 1 + l + r > limit {
                    return Err(format!("par at {pos} with sizes ({l},{r}) reaches beyond its parent range ending at {limit}"));
                }
                let p = items(t, pos + 1, l).map_err(|e| format!("par at {pos} left: {e}"))?;
                items(t, p, r).map_err(|e| format!("par at {pos} right: {e}"))
            }
            Ent::Fold(lore) => {
                let mut ranges: Vec<(usize, usize)> = vec![];
                let mut total = 0usize;
                for l in lore {
                    let vp = l.value_pos as usize;
                    // "earlier" = before the iteration itself: with a recursive stream the value may have been
                    // appended inside the fold region by a previous iteration, i.e. after the fold entry
                    let first_begin = l.descs.iter().map(|d| d.0 as usize).min().unwrap_or(pos);
                    if vp >= first_begin.max(pos + 1) || vp >= t.len() {
                        return Err(format!("fold at {pos}: iteration starting at {first_begin} points to position {vp}, not an earlier entry"));
                    }
                    match &t[vp] {
                        Ent::Ap(_) | Ent::Call(CallSt::Exec { kind: 't', .. }) => {}
                        other => return Err(format!("fold at {pos}: iteration points to {vp} which is not a stream value entry ({other:?})")),
                    }
                    for (b, len) in &l.descs {
                        total += *len as usize;
                        if *len > 0 {
                            ranges.push((*b as usize, *len as usize));
                        }
                    }
                }
                ranges.sort();
                let mut expect = pos + 1;
                for (b, len) in &ranges {
                    if *b != expect {
                        return Err(format!("fold at {pos}: iteration ranges {ranges:?} leave a gap or overlap at {expect}"));
                    }
                    expect = b + len;
                }
                if pos + 1 + total > limit {
                    return Err(format!("fold at {pos} covers {total} entries, beyond its parent range ending at {limit}"));
                }
                items(t, pos + 1, total).map_err(|e| format!("fold at {pos} region: {e}"))
            }
        }
    }
    items(t, 0, t.len()).map(|_| ())
}

#[derive(Default)]
pub struct C10 {
    pub checked: u64,
    pub nontrivial: u64,
}

fn c10_nontrivial(t: &[Ent]) -> bool {
    let multi = t.iter().any(|e| matches!(e, Ent::Fold(l) if l.len() >= 2));
    // a par nested in a fold: any par after a fold entry that lies within the fold's region
    let mut par_in_fold = false;
    for (i, e) in t.iter().enumerate() {
        if let Ent::Fold(l) = e {
            let total: usize = l.iter().map(|x| x.descs.iter().map(|d| d.1 as usize).sum::<usize>()).sum();
            if t.iter().skip(i + 1).take(total).any(|x| matches!(x, Ent::Par(..))) {
                par_in_fold = true;
            }
        }
    }
    multi || par_in_fold
}

impl Monitor for C10 {
    fn on_run(&mut self, cx: &mut Cx, rid: RunId) -> Vec<Viol> {
        let v = view(cx, rid);
        if v.rec.panic.is_some() || !matches!(class(v.rec.ret_code), "ok" | "catchable" | "unprocessed") {
            return vec![];
        }
        let Some(dec) = &v.out else { return vec![] };
        self.checked += 1;
        if c10_nontrivial(&dec.trace) {
            self.nontrivial += 1;
        }
        match trace_grammar(&dec.trace) {
            Ok(()) => vec![],
            Err(e) => {
                let kind = if e.contains("placeholder") {
                    "placeholder-generation"
                } else if e.contains("fold at") {
                    "fold"
                } else {
                    "par"
                };
                vec![viol(&format!("C10/malformed-trace/{kind}"), format!("peer {} ret_code {}: {e}; trace = {:?}", cx.world.peers[v.rec.peer].name, v.rec.ret_code, dec.trace))]
            }
        }
    }
    fn nontrivial(&self) -> u64 {
        self.nontrivial
    }
    fn extra(&self) -> Value {
        json!({"traces_read": self.checked})
    }
}

// ---------------------------------------------------------------------------------------------
// C12

/// function name -> stream it writes to; only streams whose instance is unique per script run
/// (global streams, and `new`-scoped streams that are not inside a fold) are tracked.
pub fn stream_writers(ast: &I) -> BTreeMap<String, String> {
    fn go(i: &I, in_fold: bool, scoped: &mut Vec<(String, bool)>, m: &mut BTreeMap<String, String>) {
        match i {
            I::Call { func, out: script::Out::Stream(s), .. } => {
                let tracked = match scoped.iter().rev().find(|(n, _)| n == s) {
                    Some((_, fold_inside)) => !*fold_inside,
                    None => true,
                };
                // a writer inside a fold writes into one instance per *script*, unless the stream was
                // introduced by a `new` inside that fold
                if tracked {
                    m.insert(func.clone(), s.clone());
                }
            }
            I::Seq(a, b) | I::Par(a, b) | I::Xor(a, b) => {
                go(a, in_fold, scoped, m);
                go(b, in_fold, scoped, m);
            }
            I::Fold { body, last, .. } => {
                go(body, true, scoped, m);
                if let Some(l) = last {
                    go(l, true, scoped, m);
                }
            }
            I::New(v, b) => {
                scoped.push((v.clone(), in_fold));
                go(b, in_fold, scoped, m);
                scoped.pop();
            }
            I::Match(_, _, b) | I::Mismatch(_, _, b) => go(b, in_fold, scoped, m),
            _ => {}
        }
    }
    let mut m = BTreeMap::new();
    go(ast, false, &mut vec![], &mut m);
    m
}

/// (stream, value text) -> generation, for call-written values of tracked streams.
fn stream_gens(dec: &Dec, writers: &BTreeMap<String, String>) -> BTreeMap<(String, String), u32> {
    let mut m = BTreeMap::new();
    for e in &dec.trace {
        if let Ent::Call(CallSt::Exec { kind: 't', cid, generation: Some(g) }) = e {
            if let Some(text) = dec.srv(cid).and_then(|a| a.value) {
                if let Ok(v) = serde_json::from_str::<Value>(&text) {
                    if let Some(s) = v["f"].as_str().and_then(|f| writers.get(f)) {
                        m.insert((s.clone(), text), *g);
                    }
                }
            }
        }
    }
    m
}

pub struct C12 {
    pub writers: BTreeMap<String, String>,
    pub pairs: u64,
    pub ordered_pairs_checked: u64,
    pub nontrivial: u64,
    pub ties: u64,
}

impl C12 {
    pub fn new(ast: &I) -> C12 {
        C12 { writers: stream_writers(ast), pairs: 0, ordered_pairs_checked: 0, nontrivial: 0, ties: 0 }
    }
}

impl Monitor for C12 {
    fn on_run(&mut self, cx: &mut Cx, rid: RunId) -> Vec<Viol> {
        let v = view(cx, rid);
        let mut out = vec![];
        if v.rec.panic.is_some() || !matches!(class(v.rec.ret_code), "ok" | "catchable" | "unprocessed") {
            return out;
        }
        let Some(dec) = &v.out else { return out };
        let (gp, gc, go) = (stream_gens(&v.prev, &self.writers), stream_gens(&v.cur, &self.writers), stream_gens(dec, &self.writers));
        if gp.is_empty() && gc.is_empty() {
            return out;
        }
        self.pairs += 1;
        // (a) values already in prev keep their relative order
        let keys: Vec<&(String, String)> = gp.keys().filter(|k| go.contains_key(*k)).collect();
        for a in &keys {
            for b in &keys {
                if a.0 != b.0 || a == b {
                    continue;
                }
                self.ordered_pairs_checked += 1;
                if gp[*a] < gp[*b] {
                    if go[*a] > go[*b] {
                        out.push(viol("C12/previously-seen-values-swapped", format!("stream {}: {} (gen {}) was before {} (gen {}) in the peer's previous data, now generations {} and {}", a.0, a.1, gp[*a], b.1, gp[*b], go[*a], go[*b])));
                    } else if go[*a] == go[*b] {
                        self.ties += 1;
                    }
                }
            }
        }
        // (b) prev-sourced < current-only < new, per stream
        let src = |k: &(String, String)| if gp.contains_key(k) { 0 } else if gc.contains_key(k) { 1 } else { 2 };
        let mut seen_sources: BTreeSet<i32> = BTreeSet::new();
        let all: Vec<&(String, String)> = go.keys().collect();
        for a in &all {
            seen_sources.insert(src(a));
            for b in &all {
                if a.0 != b.0 {
                    continue;
                }
                if src(a) < src(b) && go[*a] >= go[*b] {
                    let names = ["previous data", "current data", "this run"];
                    out.push(viol(
                        "C12/source-order-violated",
                        format!("stream {}: value {} from {} has generation {} but value {} from {} has generation {}", a.0, a.1, names[src(a) as usize], go[*a], b.1, names[src(b) as usize], go[*b]),
                    ));
                }
            }
        }
        // values of prev must still be there at all (otherwise order is vacuous) -> that is C09/C13's business
        let gens: BTreeSet<u32> = go.values().cloned().collect();
        let dense = gens.iter().cloned().max().map(|m| m as usize + 1 == gens.len()).unwrap_or(true);
        if seen_sources.len() == 3 || (seen_sources.len() >= 2 && !dense) {
            self.nontrivial += 1;
        }
        out
    }
    fn nontrivial(&self) -> u64 {
        self.nontrivial
    }
    fn extra(&self) -> Value {
        json!({"consecutive_pairs_with_stream_values": self.pairs, "ordered_value_pairs_checked": self.ordered_pairs_checked, "ties_info_only": self.ties})
    }
}

// ---------------------------------------------------------------------------------------------
// C07

#[derive(Default)]
pub struct C07 {
    pub redeliveries: u64,
    pub nontrivial: u64,
    pub include_catchable: bool,
    done: HashSet<(usize, BlobId, BlobId)>,
}

impl C07 {
    pub fn new(include_catchable: bool) -> C07 {
        C07 { include_catchable, ..Default::default() }
    }
}

impl Monitor for C07 {
    fn on_run(&mut self, cx: &mut Cx, rid: RunId) -> Vec<Viol> {
        let v = view(cx, rid);
        let mut out = vec![];
        let ok = class(v.rec.ret_code) == "ok" || (self.include_catchable && class(v.rec.ret_code) == "catchable");
        if v.rec.panic.is_some() || !ok || !v.rec.bogus.is_empty() {
            return out;
        }
        let Some(cdec) = v.out.clone() else { return out };
        let (a, b, c) = (v.rec.prev, v.rec.cur, v.rec.out);
        if c != a {
            self.nontrivial += 1;
        }
        for (variant, cur) in [("b", b), ("a", a), ("c", c), ("empty", EMPTY)] {
            if !self.done.insert((v.rec.peer, c, cur)) {
                continue;
            }
            self.redeliveries += 1;
            let r2 = cx.run(v.rec.peer, c, cur, &[], &[]);
            let rec2 = cx.runs[r2 as usize].clone();
            if rec2.panic.is_some() {
                continue;
            }
            let pname = cx.world.peers[v.rec.peer].name.clone();
            if class(rec2.ret_code) != class(v.rec.ret_code) && class(rec2.ret_code) != "ok" {
                out.push(viol(&format!("C07/redelivery-{variant}-fails"), format!("peer {pname}: re-running on its own output with current={variant} gives ret_code {} {}", rec2.ret_code, rec2.error_message)));
                continue;
            }
            match cx.dec(rec2.out) {
                Some(d2) => {
                    if d2.trace != cdec.trace {
                        out.push(viol(&format!("C07/redelivery-{variant}-changes-trace"), format!("peer {pname}: trace after re-delivery differs:\n before {:?}\n after  {:?}", cdec.trace, d2.trace)));
                    }
                }
                None => out.push(viol(&format!("C07/redelivery-{variant}-undecodable"), String::new())),
            }
            if !rec2.requests.is_empty() {
                out.push(viol(&format!("C07/redelivery-{variant}-issues-call-requests"), format!("peer {pname}: {:?}", rec2.requests.values().map(|r| cx.reqs[*r as usize].function.clone()).collect::<Vec<_>>())));
            }
            if !rec2.next_peers.is_empty() {
                out.push(viol(&format!("C07/redelivery-{variant}-sends-particle"), format!("peer {pname}: next peers {:?}", rec2.next_peers.iter().map(|p| cx.world.peer_name_by_id(p)).collect::<Vec<_>>())));
            }
        }
        out
    }
    fn nontrivial(&self) -> u64 {
        self.nontrivial
    }
    fn extra(&self) -> Value {
        json!({"redelivery_runs": self.redeliveries})
    }
}

// ---------------------------------------------------------------------------------------------
// C20

#[derive(Default)]
pub struct C20 {
    pub reexecuted: u64,
    pub nontrivial: u64,
    pub byte_different_but_equal: u64,
}

pub fn outcome_digest(o: &air_interpreter_interface::InterpreterOutcome) -> Result<Value, String> {
    let dec = crate::data::decode(&o.data);
    let canon = match &dec {
        Ok(d) => d.canon.clone(),
        Err(e) => format!("UNDECODABLE:{e}:{}", crate::netmc::hexhash(&o.data)),
    };
    let reqs = host::decode_requests(&o.call_requests).map(|m| format!("{m:?}")).unwrap_or_else(|e| format!("ERR {e}"));
    let mut next: Vec<String> = o.next_peer_pks.clone();
    next.sort();
    next.dedup();
    Ok(json!({"ret_code": o.ret_code, "error_message": o.error_message, "data": canon, "requests": reqs, "next": next,
        "flags": [o.air_size_limit_exceeded, o.particle_size_limit_exceeded, o.call_result_size_limit_exceeded]}))
}

impl Monitor for C20 {
    fn on_run(&mut self, cx: &mut Cx, rid: RunId) -> Vec<Viol> {
        let rec = cx.runs[rid as usize].clone();
        if rec.panic.is_some() {
            return vec![];
        }
        let name = cx.world.peers[rec.peer].name.clone();
        let mut raw: RawResults = RawResults::new();
        for (id, rq) in rec.results.iter().chain(rec.bogus.iter()) {
            raw.insert(*id, cx.world.oracle.answer(&name, &cx.reqs[*rq as usize]));
        }
        let (pb, cb) = (cx.bytes(rec.prev).to_vec(), cx.bytes(rec.cur).to_vec());
        let o1 = cx.run_bytes(rec.peer, &pb, &cb, &raw);
        let o2 = cx.run_bytes(rec.peer, &pb, &cb, &raw);
        self.reexecuted += 2;
        let (Ok(o1), Ok(o2)) = (o1, o2) else {
            return vec![viol("C20/panic-on-reexecution", "a run that returned an outcome panicked when repeated".into())];
        };
        let (d1, d2) = (outcome_digest(&o1).unwrap(), outcome_digest(&o2).unwrap());
        if let Some(d) = cx.dec(rec.out) {
            let n = d.data.cid_info.value_store.len().max(d.data.cid_info.tetraplet_store.len()).max(d.data.signatures.len());
            if n >= 3 {
                self.nontrivial += 1;
            }
        }
        if o1.data != o2.data && d1 == d2 {
            self.byte_different_but_equal += 1;
        }
        let mut out = vec![];
        for (a, b, what) in [(&d1, &d2, "second vs third execution")] {
            for field in ["ret_code", "error_message", "data", "requests", "next"] {
                if a[field] != b[field] {
                    out.push(viol(&format!("C20/nondeterministic-{field}"), format!("{what}: {} vs {}", a[field], b[field])));
                }
            }
        }
        // and against the memoised first execution
        let first_canon = match &cx.blobs[rec.out as usize].dec {
            Ok(d) => d.canon.clone(),
            Err(_) => String::new(),
        };
        if !first_canon.is_empty() && d1["data"].as_str() != Some(first_canon.as_str()) {
            out.push(viol("C20/nondeterministic-data", "first vs second execution differ in decoded data".into()));
        }
        if d1["ret_code"].as_i64() != Some(rec.ret_code) {
            out.push(viol("C20/nondeterministic-ret_code", format!("{} vs {}", rec.ret_code, d1["ret_code"])));
        }
        let mut n1: Vec<String> = rec.next_peers.clone();
        n1.sort();
        n1.dedup();
        if json!(n1) != d1["next"] {
            out.push(viol("C20/nondeterministic-next", format!("{:?} vs {}", n1, d1["next"])));
        }
        out
    }
    fn nontrivial(&self) -> u64 {
        self.nontrivial
    }
    fn extra(&self) -> Value {
        json!({"reexecutions": self.reexecuted, "outputs_with_different_bytes_but_equal_content": self.byte_different_but_equal})
    }
}
