//! Adversarial data (C01, C14): honest situations harvested from explorations of the ADV scripts, a mutation
//! catalogue applied at every applicable position of the decoded data, the attacker's own result set re-signed
//! with the attacker's key, every mutant executed at the victim inside an isolated worker process.

use crate::check::{Report, Tier, Violation};
use crate::data::{self, Dec};
use crate::forge::{self, Built, Slot};
use crate::host::{self, make_peer, Peer};
use crate::netmc::{self, Cfg, Monitor, World};
use crate::script::*;
use crate::worker::{self, Answer, Worker};

use serde_json::{json, Value};
use std::collections::{BTreeMap, BTreeSet};

struct Noop;
impl Monitor for Noop {}

pub const ATTACKER: &str = "M";

/// The ADV corpus: every trace-state kind occurs in some data that passes through the attacker M.
pub fn adv_scripts() -> Vec<Script> {
    let peers: Vec<String> = vec!["A".into(), "M".into(), "B".into()];
    let mk = |n: &str, ast: I| Script { family: "ADV".into(), name: format!("ADV/{n}"), ast, peers: peers.clone() };
    vec![
        // the attacker's value is produced in a sibling par branch of the calls that use it: a peer that does not hold
        // it (the attacker can take it back) meets stored results for calls whose arguments it cannot resolve
        mk(
            "arg-from-sibling-par",
            par(
                call("M", "f1", vec![], sc("x")),
                seq(seq(call("A", "g1", vec![var("x"), Arg::Str("allow".into())], sc("u")), call("A", "g1", vec![var("x"), Arg::Str("deny".into())], sc("v"))), seq(call("M", "relay", vec![var("u"), var("v")], sc("r")), call("B", "f2", vec![var("u"), var("v")], sc("w")))),
            ),
        ),
        mk("chain", seq(call("M", "f1", vec![], sc("x")), seq(call("B", "f2", vec![var("x")], sc("y")), seq(call("M", "f3", vec![var("y")], sc("w")), call("A", "f4", vec![var("x"), var("y"), var("w")], sc("z")))))),
        mk(
            "stream-fold-canon",
            seq(
                seq(call("B", "w1", vec![], st("$s")), call("M", "w2", vec![], st("$s"))),
                seq(fold(Arg::Stream("$s".into()), "i", seq(call("A", "visit", vec![var("i")], Out::None), I::Next("i".into()))), seq(canon("A", "$s", "#cs"), call("A", "obs", vec![Arg::Canon("#cs".into())], sc("o")))),
            ),
        ),
        mk("canon-by-attacker", seq(seq(call("B", "w1", vec![], st("$s")), call("M", "w2", vec![], st("$s"))), seq(canon("M", "$s", "#cs"), seq(call("B", "g", vec![Arg::Canon("#cs".into())], sc("gb")), call("A", "obs", vec![Arg::Canon("#cs".into()), var("gb")], sc("o")))))),
        mk(
            "failed-unused-ap",
            seq(
                xor(call("M", "fail1", vec![], Out::None), I::Null),
                seq(call("M", "u1", vec![], Out::None), seq(call("B", "f2", vec![], sc("y")), seq(I::Ap { src: Arg::Lens("y".into(), ".p".into()), dst: "$t".into() }, seq(call("B", "u2", vec![], Out::None), call("A", "f3", vec![var("y")], sc("z")))))),
            ),
        ),
        mk("par-pending", par(call("A", "p1", vec![], sc("a1")), seq(call("M", "f1", vec![], sc("x")), seq(call("B", "f2", vec![var("x")], sc("y")), call("A", "f3", vec![var("x"), var("y")], sc("z")))))),
        mk(
            "scalar-fold-par",
            seq(call("M", "arr0", vec![], sc("xs")), seq(fold(var("xs"), "i", par(call("B", "g", vec![var("i")], st("$r")), I::Next("i".into()))), seq(canon("A", "$r", "#r"), call("A", "obs", vec![Arg::Canon("#r".into())], Out::None)))),
        ),
        mk("same-args-two-sites", seq(seq(call("B", "user_input", vec![Arg::Str("k".into())], st("$in")), call("B", "auth_get", vec![Arg::Str("k".into())], st("$ok"))), seq(call("M", "relay", vec![], Out::None), seq(canon("A", "$ok", "#ok"), call("A", "open", vec![Arg::Canon("#ok".into())], Out::None))))),
        mk("stream-fold-par", seq(par(call("B", "w1", vec![], st("$s")), call("M", "w2", vec![], st("$s"))), seq(fold(Arg::Stream("$s".into()), "i", par(call("A", "v", vec![var("i")], st("$r")), I::Next("i".into()))), seq(canon("A", "$r", "#r"), call("A", "obs", vec![Arg::Canon("#r".into())], Out::None))))),
        mk("xor-recover", seq(xor(call("B", "fail1", vec![], sc("x")), call("M", "rec", vec![], sc("x"))), seq(call("B", "g", vec![var("x")], sc("y")), call("A", "use", vec![var("x"), var("y")], sc("z"))))),
        mk("new-scope", new("$n", seq(call("M", "w", vec![], st("$n")), seq(call("B", "w2", vec![], st("$n")), seq(canon("A", "$n", "#cn"), call("A", "obs", vec![Arg::Canon("#cn".into())], sc("o"))))))),
        mk("lens-target", seq(call("M", "ptab", vec![], sc("t")), seq(I::Call { peer: PeerRef::Lens("t".into(), ".B".into()), svc: "s".into(), func: "g".into(), args: vec![Arg::Lens("t".into(), ".A".into())], out: sc("y") }, call("A", "fin", vec![var("y")], sc("z"))))),
        mk("empty-canon", seq(call("M", "f1", vec![], sc("x")), seq(canon("M", "$e", "#ce"), seq(call("B", "g", vec![Arg::Canon("#ce".into())], sc("y")), call("A", "obs", vec![Arg::Canon("#ce".into()), var("x"), var("y")], sc("o")))))),
        mk("map", seq(seq(call("B", "k1", vec![], sc("v1")), call("M", "k2", vec![], sc("v2"))), seq(I::ApMap { key: Arg::Str("a".into()), value: var("v1"), map: "%m".into() }, seq(I::ApMap { key: Arg::Str("b".into()), value: var("v2"), map: "%m".into() }, seq(I::Canon { peer: PeerRef::Name("A".into()), src: "%m".into(), dst: "#%cm".into() }, call("A", "obs", vec![Arg::CanonMap("#%cm".into())], Out::None)))))),
    ]
}

pub struct Situation {
    pub script: Script,
    pub air: String,
    pub init_id: String,
    pub particle: String,
    pub victim: String,
    pub prev: Vec<u8>,
    pub cur: Vec<u8>,
}

/// Honest (victim, previous data, current data) triples: every explored run of a peer other than the attacker
/// that received non-empty current data; one per distinct (victim, current data), with the most advanced
/// previous data seen for it.
pub fn harvest(tier: Tier) -> Vec<Situation> {
    let mut out = vec![];
    let cap = if tier == Tier::Quick { 6 } else { 40 };
    for s in adv_scripts() {
        let world = World::new(&s, &["O"], "particle-1");
        let air = world.part.script.clone();
        let init_id = world.part.init_peer_id.clone();
        let cfg = Cfg { state_cap: 4000, stop_at_first_violation: false, ..Default::default() };
        let ex = netmc::explore(world, &cfg, &mut Noop);
        // for each (victim, current data): the least and the most advanced previous data it was delivered to
        // (a victim that has not seen a result yet cannot notice that it was tampered with by comparing)
        let mut best: BTreeMap<(usize, u32), ((usize, u32), (usize, u32))> = BTreeMap::new();
        for r in &ex.cx.runs {
            if r.cur == netmc::EMPTY || ex.cx.world.peers[r.peer].name == ATTACKER || r.ret_code != 0 {
                continue;
            }
            let plen = ex.cx.dec(r.prev).map(|d| d.result_multiset().values().sum::<usize>()).unwrap_or(0);
            let e = best.entry((r.peer, r.cur)).or_insert(((plen, r.prev), (plen, r.prev)));
            if plen < e.0 .0 {
                e.0 = (plen, r.prev);
            }
            if plen > e.1 .0 {
                e.1 = (plen, r.prev);
            }
        }
        // prefer situations whose current data is large
        let mut items: Vec<((usize, u32), ((usize, u32), (usize, u32)))> = best.into_iter().collect();
        items.sort_by_key(|((_, cur), _)| std::cmp::Reverse(ex.cx.dec(*cur).map(|d| d.trace.len()).unwrap_or(0)));
        if std::env::var("VERIF_ADV_DEBUG").is_ok() {
            for ((peer, cur), _) in &items {
                host::elog(&format!("SIT {} victim={} cur={} trace={:?}", s.name, ex.cx.world.peers[*peer].name, cur, ex.cx.dec(*cur).map(|d| d.trace.iter().map(|e| format!("{e:?}").chars().take(14).collect::<String>()).collect::<Vec<_>>())));
            }
        }
        for ((peer, cur), (least, most)) in items.into_iter().take(cap) {
            let mut prevs = vec![least.1];
            if most.1 != least.1 {
                prevs.push(most.1);
            }
            for prev in prevs {
                out.push(Situation {
                    script: s.clone(),
                    air: air.clone(),
                    init_id: init_id.clone(),
                    particle: "particle-1".into(),
                    victim: ex.cx.world.peers[peer].name.clone(),
                    prev: ex.cx.bytes(prev).to_vec(),
                    cur: ex.cx.bytes(cur).to_vec(),
                });
            }
        }
    }
    out
}

// ---------------------------------------------------------------------------------------------
// the mutation catalogue

#[derive(Clone, Debug)]
pub struct Mutation {
    /// operator name (what known findings and evidence are keyed on)
    pub op: String,
    /// where / with which value
    pub at: String,
    pub json: Value,
    /// call results handed to the victim together with the data (id, JSON text)
    pub results: Vec<(u32, String)>,
    /// particle id the victim runs under (None = the honest one)
    pub victim_particle: Option<String>,
    /// salt the attacker signs with (None = the honest particle id)
    pub sign_salt: Option<String>,
}

fn m(op: &str, at: String, json: Value) -> Mutation {
    Mutation { op: op.into(), at, json, results: vec![], victim_particle: None, sign_salt: None }
}

fn walk_paths(v: &Value, path: &mut Vec<String>, f: &mut dyn FnMut(&[String], &Value)) {
    f(path, v);
    match v {
        Value::Array(a) => {
            for (i, x) in a.iter().enumerate() {
                path.push(i.to_string());
                walk_paths(x, path, f);
                path.pop();
            }
        }
        Value::Object(o) => {
            for (k, x) in o {
                path.push(k.clone());
                walk_paths(x, path, f);
                path.pop();
            }
        }
        _ => {}
    }
}

fn pointer(path: &[String]) -> String {
    path.iter().map(|p| format!("/{}", p.replace('~', "~0").replace('/', "~1"))).collect()
}

fn number_values(v: u64, trace_len: u64, tier: Tier) -> Vec<u64> {
    let mut out = vec![0, v.wrapping_add(1), u32::MAX as u64, 0xCAFEBABE, trace_len];
    if tier == Tier::Thorough {
        out.extend([1, v.saturating_sub(1), trace_len.saturating_sub(1), trace_len + 1, (1 << 31) - 1, 1 << 31, u32::MAX as u64 - 1, 5_000_000]);
    }
    out.sort();
    out.dedup();
    out.retain(|x| *x != v);
    out
}

const ABSENT_CID: &str = "bagaaihrazzzzzzzzzzzzzzzzzzzzzzzzzzzzzzzzzzzzzzzzzzzzzzzzzzza";

pub fn mutations(base: &Value, victim: &Peer, attacker: &Peer, tier: Tier) -> Vec<Mutation> {
    let mut out: Vec<Mutation> = vec![];
    let trace_len = base["trace"].as_array().map(|a| a.len()).unwrap_or(0) as u64;
    let trace = base["trace"].clone();
    // G1: every number leaf of the trace, and lcid
    let mut nums: Vec<(Vec<String>, u64)> = vec![];
    walk_paths(&trace, &mut vec!["trace".into()], &mut |p, v| {
        if let Some(n) = v.as_u64() {
            nums.push((p.to_vec(), n));
        }
    });
    nums.push((vec!["lcid".into()], base["lcid"].as_u64().unwrap_or(0)));
    for (p, n) in &nums {
        for val in number_values(*n, trace_len, tier) {
            let mut j = base.clone();
            if let Some(slot) = j.pointer_mut(&pointer(p)) {
                *slot = json!(val);
                out.push(m("number", format!("{} := {val}", pointer(p)), j));
            }
        }
    }
    // G2: every array of the trace (the trace itself, fold lore, descriptors, ap generations) and canon value lists
    let mut arrays: Vec<(Vec<String>, usize)> = vec![];
    walk_paths(&trace, &mut vec!["trace".into()], &mut |p, v| {
        if let Some(a) = v.as_array() {
            arrays.push((p.to_vec(), a.len()));
        }
    });
    if let Some(o) = base["cid_info"]["canon_result_store"].as_object() {
        for (k, v) in o {
            arrays.push((vec!["cid_info".into(), "canon_result_store".into(), k.clone(), "values".into()], v["values"].as_array().map(|a| a.len()).unwrap_or(0)));
        }
    }
    for (p, len) in &arrays {
        let ptr = pointer(p);
        let edit = |f: &dyn Fn(&mut Vec<Value>)| -> Value {
            let mut j = base.clone();
            if let Some(Value::Array(a)) = j.pointer_mut(&ptr) {
                f(a);
            }
            j
        };
        for i in 0..*len {
            out.push(m("array-delete", format!("{ptr}[{i}]"), edit(&|a| {
                a.remove(i);
            })));
            out.push(m("array-duplicate", format!("{ptr}[{i}]"), edit(&|a| {
                let x = a[i].clone();
                a.insert(i, x);
            })));
            if i + 1 < *len {
                out.push(m("array-swap", format!("{ptr}[{i}]<->[{}]", i + 1), edit(&|a| a.swap(i, i + 1))));
            }
        }
        if *len > 0 {
            out.push(m("array-empty", ptr.clone(), edit(&|a| a.clear())));
            out.push(m("array-truncate", format!("{ptr}[..{}]", len - 1), edit(&|a| {
                a.pop();
            })));
        }
    }
    // per trace entry
    let entries: Vec<Value> = trace.as_array().cloned().unwrap_or_default();
    let srv_keys: Vec<String> = base["cid_info"]["service_result_store"].as_object().map(|o| o.keys().cloned().collect()).unwrap_or_default();
    let canon_keys: Vec<String> = base["cid_info"]["canon_result_store"].as_object().map(|o| o.keys().cloned().collect()).unwrap_or_default();
    let value_keys: Vec<String> = base["cid_info"]["value_store"].as_object().map(|o| o.keys().cloned().collect()).unwrap_or_default();
    for (i, e) in entries.iter().enumerate() {
        let slot = forge::slot_of(e);
        let set_entry = |new: Value| -> Value {
            let mut j = base.clone();
            j["trace"][i] = new;
            j
        };
        // G5: state kind rewrites
        let mut kinds: Vec<(&str, Value)> = vec![
            ("to-sent-by-victim", json!({"call": {"sent_by": {"PeerId": victim.id}}})),
            ("to-sent-by-attacker", json!({"call": {"sent_by": {"PeerId": attacker.id}}})),
            ("to-ap", json!({"ap": {"gens": [0]}})),
            ("to-ap-no-generation", json!({"ap": {"gens": []}})),
            ("to-ap-two-generations", json!({"ap": {"gens": [0, 1]}})),
            ("to-par-0-0", json!({"par": [0, 0]})),
            ("to-par-1-1", json!({"par": [1, 1]})),
            ("to-par-huge", json!({"par": [u32::MAX, u32::MAX]})),
            ("to-empty-fold", json!({"fold": {"lore": []}})),
            ("to-fold-one-iteration", json!({"fold": {"lore": [{"pos": 0, "desc": [{"pos": i + 1, "len": 1}, {"pos": i + 2, "len": 0}]}]}})),
            ("to-fold-one-descriptor", json!({"fold": {"lore": [{"pos": 0, "desc": [{"pos": i + 1, "len": 1}]}]}})),
            ("to-fold-three-descriptors", json!({"fold": {"lore": [{"pos": 0, "desc": [{"pos": i + 1, "len": 0}, {"pos": i + 1, "len": 0}, {"pos": i + 1, "len": 0}]}]}})),
            ("to-canon-sent-by-attacker", json!({"canon": {"sent_by": attacker.id}})),
            ("to-canon-sent-by-victim", json!({"canon": {"sent_by": victim.id}})),
        ];
        if let Slot::CallDone(kind, cid) = &slot {
            for (k2, v2) in [("scalar", json!({"call": {"executed": {"scalar": cid}}})), ("stream", json!({"call": {"executed": {"stream": {"cid": cid, "generation": 0}}}})), ("unused", json!({"call": {"executed": {"unused": cid}}})), ("failed", json!({"call": {"failed": cid}}))] {
                if k2 != kind {
                    out.push(m("call-result-kind", format!("trace[{i}] {kind} -> {k2}"), set_entry(v2)));
                }
            }
            for c in canon_keys.iter().take(2) {
                kinds.push(("to-canon-executed", json!({"canon": {"executed": c}})));
            }
        }
        if matches!(slot, Slot::CanonDone(_) | Slot::CanonSent | Slot::CallSent | Slot::Ap | Slot::Par | Slot::Fold) {
            for c in srv_keys.iter().take(2) {
                kinds.push(("to-call-executed", json!({"call": {"executed": {"scalar": c}}})));
            }
        }
        for (name, v) in kinds {
            if &v != e {
                out.push(m("entry-kind", format!("trace[{i}] {name}"), set_entry(v)));
            }
        }
        // a pending request of the victim itself, with a result supplied under that id
        for call_id in [1u32, 7] {
            let mut mu = m("own-request-with-result", format!("trace[{i}] sent_by victim call_id {call_id} + result"), set_entry(json!({"call": {"sent_by": {"PeerIdWithCallId": {"peer_id": victim.id, "call_id": call_id}}}})));
            mu.results = vec![(call_id, "\"forged\"".into())];
            out.push(mu);
        }
        // G3: re-point content ids
        match &slot {
            Slot::CallDone(kind, cid) => {
                let pool: &Vec<String> = if kind == "unused" { &value_keys } else { &srv_keys };
                for other in pool.iter().filter(|k| *k != cid) {
                    let mut j = base.clone();
                    forge::set_slot_cid(&mut j["trace"][i], other);
                    out.push(m("repoint-call-cid", format!("trace[{i}] -> another stored id"), j));
                }
                for (n, t) in [("absent", ABSENT_CID), ("garbage", "x"), ("empty", "")] {
                    let mut j = base.clone();
                    forge::set_slot_cid(&mut j["trace"][i], t);
                    out.push(m("repoint-call-cid", format!("trace[{i}] -> {n}"), j));
                }
            }
            Slot::CanonDone(cid) => {
                for other in canon_keys.iter().filter(|k| *k != cid) {
                    let mut j = base.clone();
                    forge::set_slot_cid(&mut j["trace"][i], other);
                    out.push(m("repoint-canon-cid", format!("trace[{i}] -> another stored id"), j));
                }
                for (n, t) in [("absent", ABSENT_CID), ("garbage", "x")] {
                    let mut j = base.clone();
                    forge::set_slot_cid(&mut j["trace"][i], t);
                    out.push(m("repoint-canon-cid", format!("trace[{i}] -> {n}"), j));
                }
            }
            _ => {}
        }
        // S1: consistently forged aggregates (content ids recomputed)
        if let Slot::CallDone(kind, cid) = &slot {
            if kind != "unused" {
                if let Some((vcid, hash, tcid, tet)) = forge::service_agg(base, cid) {
                    let (tp, ts, tf, tl) = (tet["peer_pk"].as_str().unwrap_or("").to_string(), tet["service_id"].as_str().unwrap_or("").to_string(), tet["function_name"].as_str().unwrap_or("").to_string(), tet["lens"].as_str().unwrap_or("").to_string());
                    let mut forged = |name: &str, f: &dyn Fn(&mut Value) -> String| {
                        let mut j = base.clone();
                        let new_cid = f(&mut j);
                        forge::set_slot_cid(&mut j["trace"][i], &new_cid);
                        out.push(m("forged-call-result", format!("trace[{i}] {name}"), j));
                    };
                    forged("value not JSON", &|j| {
                        let v = forge::add_value(j, "not json {");
                        forge::add_service_result(j, &v, &hash, &tcid)
                    });
                    forged("value replaced", &|j| {
                        let v = forge::add_value(j, "{\"forged\":true}");
                        forge::add_service_result(j, &v, &hash, &tcid)
                    });
                    forged("value of another result", &|j| {
                        let v = value_keys.iter().find(|k| **k != vcid).cloned().unwrap_or_else(|| vcid.clone());
                        forge::add_service_result(j, &v, &hash, &tcid)
                    });
                    forged("argument hash changed", &|j| forge::add_service_result(j, &vcid, ABSENT_CID, &tcid));
                    forged("argument hash empty", &|j| forge::add_service_result(j, &vcid, "", &tcid));
                    forged("tetraplet function changed", &|j| {
                        let t = forge::add_tetraplet(j, &tp, &ts, "other_function", &tl);
                        forge::add_service_result(j, &vcid, &hash, &t)
                    });
                    forged("tetraplet service changed", &|j| {
                        let t = forge::add_tetraplet(j, &tp, "other_service", &tf, &tl);
                        forge::add_service_result(j, &vcid, &hash, &t)
                    });
                    forged("tetraplet lens changed", &|j| {
                        let t = forge::add_tetraplet(j, &tp, &ts, &tf, ".$.forged");
                        forge::add_service_result(j, &vcid, &hash, &t)
                    });
                    for (who, pid) in [("attacker", attacker.id.clone()), ("victim", victim.id.clone()), ("nobody", "12D3KooWNobodyNobodyNobodyNobodyNobodyNobodyNobodyNob".to_string())] {
                        if pid != tp {
                            forged(&format!("tetraplet peer -> {who}"), &|j| {
                                let t = forge::add_tetraplet(j, &pid, &ts, &tf, &tl);
                                forge::add_service_result(j, &vcid, &hash, &t)
                            });
                            forged(&format!("tetraplet peer -> {who}, value replaced"), &|j| {
                                let t = forge::add_tetraplet(j, &pid, &ts, &tf, &tl);
                                let v = forge::add_value(j, "{\"forged\":true}");
                                forge::add_service_result(j, &v, &hash, &t)
                            });
                        }
                    }
                }
            }
        }
        if let Slot::CanonDone(cid) = &slot {
            if let Some(agg) = base["cid_info"]["canon_result_store"].get(cid) {
                let tet = agg["tetraplet"].as_str().unwrap_or("").to_string();
                let elems: Vec<String> = agg["values"].as_array().map(|a| a.iter().filter_map(|x| x.as_str().map(|s| s.to_string())).collect()).unwrap_or_default();
                let mut forged = |name: &str, f: &dyn Fn(&mut Value) -> String| {
                    let mut j = base.clone();
                    let new_cid = f(&mut j);
                    forge::set_slot_cid(&mut j["trace"][i], &new_cid);
                    out.push(m("forged-canon-result", format!("trace[{i}] {name}"), j));
                };
                forged("elements reversed", &|j| {
                    let mut e = elems.clone();
                    e.reverse();
                    forge::add_canon_result(j, &tet, &e)
                });
                forged("first element dropped", &|j| forge::add_canon_result(j, &tet, &elems[elems.len().min(1)..]));
                forged("element duplicated", &|j| {
                    let mut e = elems.clone();
                    if let Some(x) = e.first().cloned() {
                        e.push(x);
                    }
                    forge::add_canon_result(j, &tet, &e)
                });
                forged("forged literal element added", &|j| {
                    let v = forge::add_value(j, "\"forged\"");
                    let t = forge::add_tetraplet(j, &attacker.id, "", "", "");
                    let el = forge::add_canon_element(j, &v, &t, air_interpreter_data::Provenance::literal());
                    let mut e = elems.clone();
                    e.push(el);
                    forge::add_canon_result(j, &tet, &e)
                });
                forged("canon tetraplet peer -> attacker", &|j| {
                    let t = forge::add_tetraplet(j, &attacker.id, "", "", "");
                    forge::add_canon_result(j, &t, &elems)
                });
                forged("element value not JSON", &|j| {
                    let v = forge::add_value(j, "not json {");
                    let t = forge::add_tetraplet(j, &attacker.id, "", "", "");
                    let el = forge::add_canon_element(j, &v, &t, air_interpreter_data::Provenance::literal());
                    forge::add_canon_result(j, &tet, &[el])
                });
            }
        }
    }
    // S2: relocation of done results between call sites
    let done: Vec<(usize, String, String)> = entries.iter().enumerate().filter_map(|(i, e)| if let Slot::CallDone(k, c) = forge::slot_of(e) { Some((i, k, c)) } else { None }).collect();
    for (i, _, ci) in &done {
        for (j2, _, cj) in &done {
            if i < j2 && ci != cj {
                let mut j = base.clone();
                forge::set_slot_cid(&mut j["trace"][*i], cj);
                forge::set_slot_cid(&mut j["trace"][*j2], ci);
                out.push(m("swap-results", format!("trace[{i}] <-> trace[{j2}]"), j));
            }
            if i != j2 && ci != cj {
                let mut j = base.clone();
                forge::set_slot_cid(&mut j["trace"][*j2], ci);
                out.push(m("copy-result", format!("trace[{i}] -> trace[{j2}]"), j));
            }
        }
    }
    // G4: store entries removed / values replaced in place (content id no longer matches)
    for store in ["value_store", "tetraplet_store", "canon_element_store", "canon_result_store", "service_result_store"] {
        if let Some(o) = base["cid_info"][store].as_object() {
            for k in o.keys() {
                let mut j = base.clone();
                j["cid_info"][store].as_object_mut().unwrap().remove(k);
                out.push(m("store-entry-removed", format!("{store}"), j));
            }
            if store == "value_store" {
                for k in o.keys().take(if tier == Tier::Quick { 2 } else { 8 }) {
                    let mut j = base.clone();
                    j["cid_info"][store][k] = json!("\"replaced in place\"");
                    out.push(m("store-value-replaced-in-place", store.to_string(), j));
                }
            }
        }
    }
    // S3: signatures
    if let Some(sigs) = base["signatures"].as_array() {
        for i in 0..sigs.len() {
            let mut j = base.clone();
            j["signatures"].as_array_mut().unwrap().remove(i);
            out.push(m("signature-removed", format!("signatures[{i}]"), j));
            for k in 0..sigs.len() {
                if k != i {
                    let mut j = base.clone();
                    let s = j["signatures"][k][1].clone();
                    j["signatures"][i][1] = s;
                    out.push(m("signature-copied-from-another-peer", format!("signatures[{i}] := signatures[{k}]"), j));
                }
            }
        }
    }
    let mut other_salt = m("attacker-signs-for-another-particle", "salt particle-2".into(), base.clone());
    other_salt.sign_salt = Some("particle-2".into());
    out.push(other_salt);
    let mut replay = m("honest-data-replayed-under-another-particle", "victim runs particle-2".into(), base.clone());
    replay.victim_particle = Some("particle-2".into());
    out.push(replay);
    out.push(m("unchanged", "control".into(), base.clone()));
    out
}

// ---------------------------------------------------------------------------------------------
// execution of one mutant

pub struct Executed {
    pub answer: Answer,
    pub built: bool,
}

pub fn run_mutant(w: &mut Worker, sit: &Situation, mu: &Mutation, version: &str, attacker: &Peer, resign: bool) -> Executed {
    let salt = mu.sign_salt.clone().unwrap_or_else(|| sit.particle.clone());
    let signers: Vec<&Peer> = if resign { vec![attacker] } else { vec![] };
    let bytes = match forge::finish(&mu.json, version, &signers, &salt) {
        Built::Bytes(b) => b,
        Built::NotEncodable(_) => return Executed { answer: Answer::Ok(Value::Null), built: false },
    };
    let results: host::RawResults = mu.results.iter().map(|(id, t)| (*id, air_interpreter_interface::CallServiceResult { ret_code: 0, result: t.clone() })).collect();
    let req = json!({"op": "exec", "air": sit.air, "peer": sit.victim, "init_id": sit.init_id, "particle": mu.victim_particle.clone().unwrap_or_else(|| sit.particle.clone()),
        "prev": worker::hex(&sit.prev), "cur": worker::hex(&bytes), "results": worker::hex(&host::encode_results(&results))});
    Executed { answer: w.ask(&req), built: true }
}

pub fn panic_site(p: &str) -> String {
    // "<path>:<line> :: message" -> crate-relative path:line
    let loc = p.split(" :: ").next().unwrap_or(p);
    if let Some(i) = loc.find("/registry/src/") {
        let rest = &loc[i + "/registry/src/".len()..];
        return rest.splitn(2, '/').nth(1).unwrap_or(rest).to_string();
    }
    for marker in ["/air/src/", "/crates/", "/avm/"] {
        if let Some(i) = loc.find(marker) {
            return loc[i + 1..].to_string();
        }
    }
    loc.to_string()
}

fn class_of(code: i64) -> &'static str {
    host::outcome_code_class(code)
}

// ---------------------------------------------------------------------------------------------
// C01 (adversarial data part) and C14 share one sweep

pub struct SweepStats {
    pub mutants: u64,
    pub not_encodable: u64,
    pub executed: u64,
    pub past_preparation: u64,
    pub by_op: BTreeMap<String, (u64, u64, u64)>, // executed, past preparation, accepted (code 0)
    pub codes: BTreeMap<i64, u64>,
}

pub struct SweepOut {
    pub stats: SweepStats,
    pub c01: Vec<Violation>,
    pub c14: Vec<Violation>,
    pub c02: Vec<Violation>,
    pub samples: Vec<Value>,
    pub situations: usize,
    pub worker_restarts: u64,
    pub unverifiable_outputs: u64,
}

fn honest_cids_by_owner(d: &Dec) -> BTreeMap<usize, (String, String)> {
    // position -> (owner peer id, cid) for done calls (not unused) and executed canons
    let mut out = BTreeMap::new();
    for (i, e) in d.trace.iter().enumerate() {
        use crate::data::{CallSt, CanonSt, Ent};
        match e {
            Ent::Call(CallSt::Exec { kind, cid, .. }) if *kind != 'u' => {
                if let Some(o) = d.owner_of_call(cid) {
                    out.insert(i, (o, format!("call:{cid}")));
                }
            }
            Ent::Call(CallSt::Failed { cid }) => {
                if let Some(o) = d.owner_of_call(cid) {
                    out.insert(i, (o, format!("call:{cid}")));
                }
            }
            Ent::Canon(CanonSt::Exec(cid)) => {
                if let Some(o) = d.canon(cid).and_then(|c| c.tetraplet).map(|t| t.0) {
                    out.insert(i, (o, format!("canon:{cid}")));
                }
            }
            _ => {}
        }
    }
    out
}

/// C14's semantic oracle for an accepted mutant: `n` = the victim's new data, `h` = what the victim's data is
/// after the honest run, `prev` = the victim's previous data.
fn c14_judge(n: &Dec, h: &Dec, prev: &Dec, attacker_id: &str, victim_id: &str, results_supplied: bool) -> Option<String> {
    let (rn, rh, rp) = (honest_cids_by_owner(n), honest_cids_by_owner(h), honest_cids_by_owner(prev));
    let same_shape = n.trace.len() == h.trace.len();
    let mut count_n: BTreeMap<(String, String), i64> = BTreeMap::new();
    let mut count_h: BTreeMap<(String, String), i64> = BTreeMap::new();
    for v in rn.values() {
        *count_n.entry(v.clone()).or_insert(0) += 1;
    }
    for v in rh.values().chain(std::iter::empty()) {
        *count_h.entry(v.clone()).or_insert(0) += 1;
    }
    let mut count_p: BTreeMap<(String, String), i64> = BTreeMap::new();
    for v in rp.values() {
        *count_p.entry(v.clone()).or_insert(0) += 1;
    }
    for (pos, (owner, cid)) in &rn {
        if owner == attacker_id {
            continue;
        }
        // the victim canonicalizes locally in this very run: its own canon results may be new
        if owner == victim_id && (cid.starts_with("canon:") || results_supplied) {
            // ... and when the mutant hands call results to the victim, the victim's own calls may complete
            continue;
        }
        let genuine = count_h.get(&(owner.clone(), cid.clone())).cloned().unwrap_or(0).max(count_p.get(&(owner.clone(), cid.clone())).cloned().unwrap_or(0));
        if count_n[&(owner.clone(), cid.clone())] > genuine {
            return Some(format!("position {pos}: result {cid} attributed to honest peer {owner} occurs {} times in the accepted data, {} times in the honest outcome", count_n[&(owner.clone(), cid.clone())], genuine));
        }
        // the value shown under the id must be the one the owner signed: the honest outcome (or the victim's previous
        // data) stores it under the same id; an altered value under an unchanged id is an altered result
        if let Some(c) = cid.strip_prefix("call:") {
            if let (Some(a), Some(b)) = (n.srv(c), h.srv(c).or_else(|| prev.srv(c))) {
                if a.value != b.value || a.tetraplet != b.tetraplet || a.arg_hash != b.arg_hash {
                    return Some(format!("position {pos}: result {cid} attributed to honest peer {owner} is stored with value {:?} tetraplet {:?}; the owner signed value {:?} tetraplet {:?}", a.value, a.tetraplet, b.value, b.tetraplet));
                }
            }
        }
        if let Some(c) = cid.strip_prefix("canon:") {
            if let (Some(a), Some(b)) = (n.canon(c), h.canon(c).or_else(|| prev.canon(c))) {
                let va: Vec<_> = a.elems.iter().map(|e| (e.value.clone(), e.tetraplet.clone())).collect();
                let vb: Vec<_> = b.elems.iter().map(|e| (e.value.clone(), e.tetraplet.clone())).collect();
                if va != vb {
                    return Some(format!("position {pos}: canon result {cid} attributed to honest peer {owner} is stored with elements {va:?}; the owner signed {vb:?}"));
                }
            }
        }
        if same_shape {
            match rh.get(pos) {
                Some((o2, c2)) if o2 == owner && c2 == cid => {}
                other => return Some(format!("position {pos}: accepted data holds {cid} attributed to honest peer {owner}; the honest outcome holds {other:?} at that call site")),
            }
        }
    }
    None
}

pub fn sweep(tier: Tier, pairs: bool) -> SweepOut {
    let sits = harvest(tier);
    let attacker = make_peer(ATTACKER);
    let nthreads = std::thread::available_parallelism().map(|x| x.get()).unwrap_or(8).min(sits.len().max(1));
    let next = std::sync::atomic::AtomicUsize::new(0);
    let results: std::sync::Mutex<Vec<(usize, SweepOut)>> = std::sync::Mutex::new(vec![]);
    std::thread::scope(|sc| {
        for _ in 0..nthreads {
            sc.spawn(|| {
                host::install_panic_hook();
                let mut w = Worker::new();
                loop {
                    let si = next.fetch_add(1, std::sync::atomic::Ordering::SeqCst);
                    if si >= sits.len() {
                        break;
                    }
                    let o = sweep_one(&mut w, &sits[si], &attacker, tier, pairs);
                    results.lock().unwrap().push((si, o));
                }
            });
        }
    });
    let mut results = results.into_inner().unwrap();
    results.sort_by_key(|r| r.0);
    let mut total = SweepOut { stats: SweepStats { mutants: 0, not_encodable: 0, executed: 0, past_preparation: 0, by_op: BTreeMap::new(), codes: BTreeMap::new() }, c01: vec![], c14: vec![], c02: vec![], samples: vec![], situations: sits.len(), worker_restarts: 0, unverifiable_outputs: 0 };
    for (_, o) in results {
        total.stats.mutants += o.stats.mutants;
        total.stats.not_encodable += o.stats.not_encodable;
        total.stats.executed += o.stats.executed;
        total.stats.past_preparation += o.stats.past_preparation;
        for (k, v) in o.stats.by_op {
            let e = total.stats.by_op.entry(k).or_insert((0, 0, 0));
            e.0 += v.0;
            e.1 += v.1;
            e.2 += v.2;
        }
        for (k, v) in o.stats.codes {
            *total.stats.codes.entry(k).or_insert(0) += v;
        }
        total.c01.extend(o.c01);
        total.c14.extend(o.c14);
        total.c02.extend(o.c02);
        if total.samples.len() < 10 {
            total.samples.extend(o.samples.into_iter().take(2));
        }
        total.worker_restarts += o.worker_restarts;
        total.unverifiable_outputs += o.unverifiable_outputs;
    }
    total
}

fn replay_value(sit: &Situation, mu: &Mutation, resign: bool, second: Option<&Mutation>) -> Value {
    json!({"engine": "adv", "script": serde_json::to_value(&sit.script).unwrap(), "victim": sit.victim, "particle": sit.particle,
        "prev": worker::hex(&sit.prev), "cur": worker::hex(&sit.cur), "op": mu.op, "at": mu.at, "resign": resign,
        "second": second.map(|s| json!({"op": s.op, "at": s.at}))})
}

fn sweep_one(w: &mut Worker, sit: &Situation, attacker: &Peer, tier: Tier, pairs: bool) -> SweepOut {
    let mut out = SweepOut { stats: SweepStats { mutants: 0, not_encodable: 0, executed: 0, past_preparation: 0, by_op: BTreeMap::new(), codes: BTreeMap::new() }, c01: vec![], c14: vec![], c02: vec![], samples: vec![], situations: 1, worker_restarts: 0, unverifiable_outputs: 0 };
    let victim = make_peer(&sit.victim);
    let Ok((base, version)) = forge::decode_json(&sit.cur) else { return out };
    let prev_dec = data::decode(&sit.prev).ok();
    // the honest outcome
    let honest = {
        let mu = m("unchanged", "honest".into(), base.clone());
        // honest data is delivered as it is (not re-encoded)
        let req = json!({"op": "exec", "air": sit.air, "peer": sit.victim, "init_id": sit.init_id, "particle": sit.particle, "prev": worker::hex(&sit.prev), "cur": worker::hex(&sit.cur), "results": worker::hex(&host::encode_results(&host::RawResults::new()))});
        let _ = mu;
        w.ask(&req)
    };
    let h_dec = match &honest {
        Answer::Ok(o) if o["ret_code"].as_i64() == Some(0) => {
            let bytes = if o["data_eq_prev"].as_bool() == Some(true) { sit.prev.clone() } else { worker::unhex(o["data"].as_str().unwrap_or("")) };
            data::decode(&bytes).ok()
        }
        _ => None,
    };
    let first = mutations(&base, &victim, attacker, tier);
    let mut todo: Vec<(Mutation, Option<Mutation>)> = first.iter().cloned().map(|x| (x, None)).collect();
    if pairs {
        // all ordered pairs over a thinned catalogue: the second operator is applied to the first one's result
        let stride = if tier == Tier::Quick { 23 } else { 11 };
        for a in first.iter().step_by(stride) {
            let seconds = mutations(&a.json, &victim, attacker, tier);
            for b in seconds.into_iter().step_by(stride) {
                let mut c = b.clone();
                c.results.extend(a.results.iter().cloned());
                if c.sign_salt.is_none() {
                    c.sign_salt = a.sign_salt.clone();
                }
                if c.victim_particle.is_none() {
                    c.victim_particle = a.victim_particle.clone();
                }
                todo.push((c, Some(a.clone())));
            }
        }
    }
    if pairs {
        // targeted pairs: the attacker first takes back one of its *own* results (the only state it may rewrite and
        // re-sign freely), then any operator of the full catalogue is applied - a peer that no longer holds the
        // attacker's value cannot resolve the arguments of the calls that used it
        if let Ok(cur_dec) = data::decode(&sit.cur) {
            for a in first.iter().filter(|a| a.op == "entry-kind" && a.at.ends_with("to-sent-by-attacker")) {
                let pos: Option<usize> = a.at.strip_prefix("trace[").and_then(|r| r.split(']').next()).and_then(|n| n.parse().ok());
                let own = pos.and_then(|i| cur_dec.trace.get(i)).map(|e| match e {
                    crate::data::Ent::Call(crate::data::CallSt::Exec { cid, kind, .. }) if *kind != 'u' => cur_dec.owner_of_call(cid).as_deref() == Some(attacker.id.as_str()),
                    _ => false,
                });
                if own != Some(true) {
                    continue;
                }
                for b in mutations(&a.json, &victim, attacker, tier) {
                    let mut c = b.clone();
                    c.results.extend(a.results.iter().cloned());
                    todo.push((c, Some(a.clone())));
                }
            }
        }
    }
    for (mu, firstop) in &todo {
        for resign in [true, false] {
            out.stats.mutants += 1;
            let ex = run_mutant(w, sit, mu, &version, attacker, resign);
            if !ex.built {
                out.stats.not_encodable += 1;
                continue;
            }
            out.stats.executed += 1;
            let opname = match firstop {
                Some(f) => format!("{}+{}", f.op, mu.op),
                None => mu.op.clone(),
            };
            let e = out.stats.by_op.entry(if firstop.is_some() { "pair".to_string() } else { mu.op.clone() }).or_insert((0, 0, 0));
            e.0 += 1;
            let what = format!("script {} victim {} op {} at {}{} (re-signed by the attacker: {resign})", sit.script.name, sit.victim, opname, firstop.as_ref().map(|f| format!("{} then ", f.at)).unwrap_or_default(), mu.at);
            match &ex.answer {
                Answer::Panic(p) => {
                    out.c01.push(Violation { signature: format!("C01/panic/{}", panic_site(p)), description: format!("{what}: {}", p.chars().take(300).collect::<String>()), replay: replay_value(sit, mu, resign, firstop.as_ref()) });
                }
                Answer::Died(st) => {
                    let sig = if st.contains(crate::worker::WALL_BACKSTOP) { "MACHINERY/worker-wall-clock-backstop".to_string() } else { format!("C01/process-died/{}", mu.op) };
                    out.c01.push(Violation { signature: sig, description: format!("{what}: worker {st}"), replay: replay_value(sit, mu, resign, firstop.as_ref()) });
                    out.worker_restarts += 1;
                }
                Answer::Ok(o) => {
                    let code = o["ret_code"].as_i64().unwrap_or(-1);
                    if std::env::var("VERIF_ADV_TRACE").map(|t| what.contains(&t)).unwrap_or(false) {
                        host::elog(&format!("[adv] {what}: {code} {}", o["error_message"].as_str().unwrap_or("").chars().take(200).collect::<String>()));
                    }
                    *out.stats.codes.entry(code).or_insert(0) += 1;
                    let cls = class_of(code);
                    if cls != "prep" {
                        out.stats.past_preparation += 1;
                        e.1 += 1;
                    }
                    if out.samples.len() < 2 && cls != "prep" && mu.op != "unchanged" {
                        out.samples.push(json!({"script": sit.script.name, "victim": sit.victim, "op": opname, "at": mu.at, "resigned": resign, "ret_code": code}));
                    }
                    match cls {
                        "prep" | "uncatchable" => {
                            if o["data_eq_prev"].as_bool() != Some(true) || o["next"].as_array().map(|a| !a.is_empty()).unwrap_or(true) {
                                out.c02.push(Violation { signature: "C02/failed-run-data-differs-from-prev".into(), description: format!("{what}: ret_code {code}"), replay: replay_value(sit, mu, resign, firstop.as_ref()) });
                            }
                        }
                        "ok" | "catchable" | "unprocessed" => {
                            if code == 0 {
                                e.2 += 1;
                            }
                            let bytes = if o["data_eq_prev"].as_bool() == Some(true) { sit.prev.clone() } else { worker::unhex(o["data"].as_str().unwrap_or("")) };
                            match data::decode(&bytes) {
                                Err(er) => out.c02.push(Violation { signature: "C02/new-data-undecodable".into(), description: format!("{what}: ret_code {code}: {er}"), replay: replay_value(sit, mu, resign, firstop.as_ref()) }),
                                Ok(n) => {
                                    if mu.op != "unchanged" || resign {
                                        if let (Some(h), Some(p)) = (&h_dec, &prev_dec) {
                                            if mu.victim_particle.is_none() {
                                                if let Some(why) = c14_judge(&n, h, p, &attacker.id, &victim.id, !mu.results.is_empty()) {
                                                    out.c14.push(Violation { signature: format!("C14/forged-result-accepted/{}", mu.op), description: format!("{what}: ret_code {code}: {why}"), replay: replay_value(sit, mu, resign, firstop.as_ref()) });
                                                }
                                            } else if code == 0 && n.trace.len() > p.trace.len() {
                                                out.c14.push(Violation { signature: "C14/data-of-another-particle-accepted".into(), description: format!("{what}: ret_code {code}"), replay: replay_value(sit, mu, resign, firstop.as_ref()) });
                                            }
                                        }
                                    }
                                    // observed, not judged: C14 does not promise that data derived from tampered input
                                    // verifies (C03 speaks about honest histories); the victim's peers would reject it
                                    if crate::mon_local::data_verify(&n, mu.victim_particle.as_deref().unwrap_or(&sit.particle)).is_err() {
                                        out.unverifiable_outputs += 1;
                                    }
                                }
                            }
                        }
                        _ => {}
                    }
                }
            }
        }
    }
    out
}

/// Re-evaluates one recorded mutant (replay files of C01 / C14).
pub fn replay(v: &Value) -> i32 {
    let Ok(script) = serde_json::from_value::<Script>(v["script"].clone()) else {
        println!("replay file lacks the script");
        return 2;
    };
    let world = World::new(&script, &["O"], v["particle"].as_str().unwrap_or("particle-1"));
    let sit = Situation {
        air: world.part.script.clone(),
        init_id: world.part.init_peer_id.clone(),
        script,
        particle: v["particle"].as_str().unwrap_or("particle-1").to_string(),
        victim: v["victim"].as_str().unwrap_or("A").to_string(),
        prev: worker::unhex(v["prev"].as_str().unwrap_or("")),
        cur: worker::unhex(v["cur"].as_str().unwrap_or("")),
    };
    let attacker = make_peer(ATTACKER);
    let victim = make_peer(&sit.victim);
    let Ok((base, version)) = forge::decode_json(&sit.cur) else {
        println!("current data of the replay file does not decode");
        return 2;
    };
    let find = |base: &Value, op: &str, at: &str| mutations(base, &victim, &attacker, Tier::Thorough).into_iter().find(|x| x.op == op && x.at == at);
    let mu = match v["second"].as_object() {
        Some(_) => {
            // the recorded (op, at) is the second operator, applied to the first one's result
            let first = find(&base, v["second"]["op"].as_str().unwrap_or(""), v["second"]["at"].as_str().unwrap_or(""));
            first.and_then(|f| find(&f.json, v["op"].as_str().unwrap_or(""), v["at"].as_str().unwrap_or("")).map(|mut s| {
                s.results.extend(f.results.iter().cloned());
                s
            }))
        }
        None => find(&base, v["op"].as_str().unwrap_or(""), v["at"].as_str().unwrap_or("")),
    };
    let Some(mu) = mu else {
        println!("the recorded mutation is not in the catalogue any more");
        return 2;
    };
    let want = v["signature"].as_str().unwrap_or("");
    let mut seen = vec![];
    for _ in 0..2 {
        let mut w = Worker::new();
        let ex = run_mutant(&mut w, &sit, &mu, &version, &attacker, v["resign"].as_bool().unwrap_or(true));
        seen.push(match ex.answer {
            Answer::Panic(p) => format!("C01/panic/{}", panic_site(&p)),
            Answer::Died(_) => format!("C01/process-died/{}", mu.op),
            Answer::Ok(o) => {
                if std::env::var("VERIF_DUMP").is_ok() {
                    let bytes = if o["data_eq_prev"].as_bool() == Some(true) { sit.prev.clone() } else { worker::unhex(o["data"].as_str().unwrap_or("")) };
                    println!("--- outcome: ret_code {} {} next {} ", o["ret_code"], o["error_message"], o["next"]);
                    println!("    requests: {:?}", host::decode_requests(&worker::unhex(o["requests"].as_str().unwrap_or(""))).map(|m| m.into_iter().map(|(k, r)| (k, r.function, r.args)).collect::<Vec<_>>()));
                    for (label, b) in [("prev", &sit.prev), ("honest current", &sit.cur), ("new data", &bytes)] {
                        println!("  {label}:");
                        if let Ok(d) = data::decode(b) {
                            for (i, e) in d.trace.iter().enumerate() {
                                let extra = match e {
                                    crate::data::Ent::Call(crate::data::CallSt::Exec { cid, kind, .. }) if *kind != 'u' => d.srv(cid).map(|a| format!("{} {:?}", a.value.unwrap_or_default(), a.tetraplet)).unwrap_or_default(),
                                    crate::data::Ent::Call(crate::data::CallSt::Failed { cid }) => d.srv(cid).and_then(|a| a.value).unwrap_or_default(),
                                    _ => String::new(),
                                };
                                println!("    {i:3} {e:?} {extra}");
                            }
                        }
                    }
                }
                format!("ret_code {}", o["ret_code"])
            }
        });
    }
    println!("replayed mutant: op {} at {}: {:?}", mu.op, mu.at, seen);
    if seen[0] != seen[1] {
        println!("REPLAY-NONDETERMINISTIC");
        return 2;
    }
    if want.starts_with("C01/") {
        if seen[0] == want {
            println!("VIOLATION property=C01 replay={}", v["__path"].as_str().unwrap_or("<file>"));
            return 1;
        }
        println!("not reproduced");
        return 0;
    }
    // C14 / C02 signatures: re-run the sweep of this one situation and look for the signature
    let mut w = Worker::new();
    let o = sweep_one(&mut w, &sit, &attacker, Tier::Thorough, v["second"].is_object());
    let hit = o.c14.iter().chain(o.c02.iter()).find(|x| x.signature == want && x.replay["op"] == v["op"] && x.replay["at"] == v["at"] && x.replay["resign"] == v["resign"]);
    match hit {
        Some(x) => {
            println!("VIOLATION property={} replay={}", v["property"].as_str().unwrap_or("C14"), v["__path"].as_str().unwrap_or("<file>"));
            println!("reproduced: {}", x.description.chars().take(600).collect::<String>());
            1
        }
        None => {
            println!("not reproduced");
            0
        }
    }
}

pub fn op_table(s: &SweepStats) -> Value {
    json!(s.by_op.iter().map(|(k, v)| (k.clone(), json!({"executed": v.0, "past_preparation": v.1, "accepted_with_code_0": v.2}))).collect::<BTreeMap<_, _>>())
}

pub fn distinct_ops_past_preparation(s: &SweepStats) -> u64 {
    s.by_op.values().filter(|v| v.1 > 0).count() as u64
}

pub fn uniq(v: Vec<Violation>) -> Vec<Violation> {
    let mut seen = BTreeSet::new();
    v.into_iter().filter(|x| seen.insert(x.signature.clone())).collect()
}

// ---------------------------------------------------------------------------------------------
// the checks

fn adv_report(id: &str, level: &'static str, o: &SweepOut, tier: Tier) -> Report {
    let mut rep = Report::new(id, level);
    rep.assumptions = vec![
        "attacker model: owns the key of peer M only; edits the decoded data arbitrarily, recomputes content ids where the operator says so, re-signs M's own result set (every mutant is sent both re-signed and with the honest signatures)".into(),
        "every mutant is executed by the victim inside an isolated worker process (address-space limit 4 GiB); a panic is reported with its location, a dead worker is attributed to the mutant in flight".into(),
        "situations are honest (victim, previous data, current data) triples harvested from explorations of the ADV scripts".into(),
    ];
    rep.cov("evaluations", json!(o.stats.executed));
    rep.cov("mutants_generated", json!(o.stats.mutants));
    rep.cov("mutants_not_encodable", json!(o.stats.not_encodable));
    rep.cov("mutants_past_preparation", json!(o.stats.past_preparation));
    rep.cov("situations", json!(o.situations));
    rep.cov("operators", op_table(&o.stats));
    rep.cov("ret_codes", json!(o.stats.codes.iter().map(|(k, v)| (k.to_string(), *v)).collect::<BTreeMap<_, _>>()));
    rep.cov("worker_restarts", json!(o.worker_restarts));
    rep.cov("accepted_mutants_whose_output_does_not_verify_not_judged", json!(o.unverifiable_outputs));
    rep.cov("samples", json!(o.samples));
    rep.cov("exhaustive", json!(true));
    rep.cov("tier_bounds", json!(if tier == Tier::Quick { "6 situations per ADV script, 5 boundary values per number" } else { "40 situations per ADV script, 13 boundary values per number" }));
    if o.stats.past_preparation == 0 {
        rep.machinery_errors.push("vacuous: no mutant got past preparation".into());
    }
    rep
}

pub fn check_c14(tier: Tier) -> Report {
    let o = sweep(tier, true);
    let mut rep = adv_report("C14", "fault_enumeration", &o, tier);
    rep.cov("distinct_nontrivial", json!(o.stats.past_preparation));
    rep.cov("rule", json!("for every honest situation every operator of the catalogue (numbers, arrays, state kinds, re-pointed / forged / relocated / swapped results, store entries, signatures, particle ids) at every applicable position, singly and as ordered pairs over a thinned catalogue, each re-signed by the attacker and not; the victim's run must be rejected (preparation or uncatchable code) or its new data must verify and hold, for every honest peer, only results that the honest outcome holds at the same call site (same count by content id; same position when the trace shapes agree); non-trivial = mutants that got past preparation (they attack the call/canon parameter checks and the merge)"));
    rep.violations = uniq(o.c14.into_iter().collect());
    rep
}

pub fn check_c01_data(tier: Tier) -> (SweepOut, Report) {
    let o = sweep(tier, false);
    let rep = adv_report("C01", "fault_enumeration", &o, tier);
    (o, rep)
}
