//! Isolation for untrusted-input evaluations: `mc worker` is the same binary run as a child process with an
//! address-space limit; it answers one JSON request per line. A panic is caught and reported with its
//! location; a dead worker (signal, abort, allocation failure) is attributed to the request in flight and the
//! worker is restarted. Nothing evaluated in a worker can corrupt the harness's own memory.

use crate::host::{self, make_peer, Limits, Particle};

use serde_json::{json, Value};
use std::io::{BufRead, BufReader, Write};
use std::process::{Child, ChildStdin, ChildStdout, Command, Stdio};

pub fn hex(b: &[u8]) -> String {
    const T: &[u8; 16] = b"0123456789abcdef";
    let mut s = String::with_capacity(b.len() * 2);
    for x in b {
        s.push(T[(x >> 4) as usize] as char);
        s.push(T[(x & 15) as usize] as char);
    }
    s
}

pub fn unhex(s: &str) -> Vec<u8> {
    let b = s.as_bytes();
    let v = |c: u8| match c {
        b'0'..=b'9' => c - b'0',
        b'a'..=b'f' => c - b'a' + 10,
        _ => 0,
    };
    (0..b.len() / 2).map(|i| v(b[2 * i]) << 4 | v(b[2 * i + 1])).collect()
}

// ---------------------------------------------------------------------------------------------
// child side

thread_local! {
    static PEERS: std::cell::RefCell<std::collections::HashMap<String, std::rc::Rc<crate::host::Peer>>> = std::cell::RefCell::new(Default::default());
}

fn cached_peer(name: &str) -> std::rc::Rc<crate::host::Peer> {
    PEERS.with(|p| p.borrow_mut().entry(name.to_string()).or_insert_with(|| std::rc::Rc::new(make_peer(name))).clone())
}

/// Initializes everything lazy (key derivation, parser tables, version statics) in the long-lived worker
/// process, so that forked children do not redo it for every request.
fn warm_up() {
    for n in ["A", "B", "C", "M", "O"] {
        cached_peer(n);
    }
    let _ = handle(&json!({"op": "exec", "air": "(seq (null) (call %init_peer_id% (\"s\" \"f\") [] x))", "peer": "A", "init": "A", "prev": "", "cur": "", "results": hex(&host::encode_results(&host::RawResults::new()))}));
    let _ = handle(&json!({"op": "beautify", "text": "(null)"}));
}

/// A panic message built from corrupted data may hold arbitrary bytes: keep printable ASCII only.
fn sanitize(p: &str) -> String {
    p.bytes().take(600).map(|b| if (0x20..0x7f).contains(&b) { b as char } else { '?' }).collect()
}

fn handle(req: &Value) -> Value {
    let op = req["op"].as_str().unwrap_or("");
    let r = std::panic::catch_unwind(std::panic::AssertUnwindSafe(|| -> Value {
        match op {
            "exec" => {
                let peer = cached_peer(req["peer"].as_str().unwrap_or("A"));
                let init = match req["init_id"].as_str() {
                    Some(i) => i.to_string(),
                    None => cached_peer(req["init"].as_str().unwrap_or("A")).id.clone(),
                };
                let part = Particle {
                    script: req["air"].as_str().unwrap_or("").to_string(),
                    init_peer_id: init,
                    particle_id: req["particle"].as_str().unwrap_or("particle-1").to_string(),
                    timestamp: 1_700_000_000_000,
                    ttl: 30_000,
                };
                let prev = unhex(req["prev"].as_str().unwrap_or(""));
                let cur = unhex(req["cur"].as_str().unwrap_or(""));
                let results = unhex(req["results"].as_str().unwrap_or(""));
                let lim = Limits::default();
                match host::run_raw(&part, &peer, &prev, &cur, results, &lim) {
                    Ok(o) => {
                        let same = o.data == prev;
                        json!({"ok": {"ret_code": o.ret_code, "error_message": o.error_message, "data_eq_prev": same, "data": if same { String::new() } else { hex(&o.data) }, "next": o.next_peer_pks, "requests": hex(&o.call_requests)}})
                    }
                    Err(p) => json!({"panic": sanitize(&p)}),
                }
            }
            "parse" => {
                let t = req["text"].as_str().unwrap_or("");
                match air_parser::parse(t) {
                    Ok(ast) => json!({"ok": {"parsed": true, "error_nodes": crate::e2f::count_error_nodes(&ast)}}),
                    Err(e) => json!({"ok": {"parsed": false, "report_len": e.len()}}),
                }
            }
            "beautify" => {
                let t = req["text"].as_str().unwrap_or("");
                let r = air_beautifier::beautify_to_string(t);
                json!({"ok": {"beautified": r.is_ok()}})
            }
            "human" => {
                let d = unhex(req["data"].as_str().unwrap_or(""));
                let r = air::to_human_readable_data(d);
                json!({"ok": {"readable": r.is_ok()}})
            }
            "exec+human" => {
                // both entry points on the same bytes in one (possibly isolated) evaluation
                let probe = unsound_strings(&unhex(req["cur"].as_str().unwrap_or("")));
                if probe {
                    // the data deserializes into strings that are not valid UTF-8: nothing sound can be
                    // done with it; report that instead of running into arbitrary behaviour
                    return json!({"ok": {"unsound": true}});
                }
                let mut e = req.clone();
                e["op"] = json!("exec");
                let a = handle(&e);
                let h = handle(&json!({"op": "human", "data": req["cur"]}));
                json!({"ok": {"exec": a, "human": h}})
            }
            "decode" => {
                let d = unhex(req["data"].as_str().unwrap_or(""));
                let env = air_interpreter_data::InterpreterDataEnvelope::try_from_slice(&d);
                let inner = env.as_ref().ok().map(|e| air_interpreter_data::InterpreterData::try_from_slice(&e.inner_data).is_ok());
                json!({"ok": {"envelope": env.is_ok(), "inner": inner}})
            }
            "ping" => json!({"ok": "pong"}),
            _ => json!({"error": format!("unknown op {op}")}),
        }
    }));
    match r {
        Ok(v) => v,
        Err(_) => json!({"panic": sanitize(&host::take_last_panic().unwrap_or_else(|| "<unknown>".into()))}),
    }
}

/// marker of a wall-clock backstop firing in a forked evaluation: a machinery condition, never a verdict
pub const WALL_BACKSTOP: &str = "wall-clock backstop";

pub fn worker_main() -> i32 {
    // address-space limit: "memory out of proportion" = more than this for inputs of a few hundred KB at most
    let gib: u64 = std::env::var("VERIF_WORKER_AS_GIB").ok().and_then(|s| s.parse().ok()).unwrap_or(4);
    unsafe {
        let lim = libc::rlimit { rlim_cur: gib << 30, rlim_max: gib << 30 };
        libc::setrlimit(libc::RLIMIT_AS, &lim);
        let core = libc::rlimit { rlim_cur: 0, rlim_max: 0 };
        libc::setrlimit(libc::RLIMIT_CORE, &core);
    }
    warm_up();
    let timeout_s: u64 = std::env::var("VERIF_WORKER_TIMEOUT_S").ok().and_then(|s| s.parse().ok()).unwrap_or(20);
    let stdin = std::io::stdin();
    let stdout = std::io::stdout();
    let mut line = String::new();
    loop {
        line.clear();
        match stdin.lock().read_line(&mut line) {
            Ok(0) | Err(_) => return 0,
            Ok(_) => {}
        }
        let req: Value = serde_json::from_str(line.trim_end()).unwrap_or(Value::Null);
        // One forked child per request: whatever a request does to the heap (corrupted archives can
        // deserialize into values that are unsafe to touch or to drop) cannot leak into the next request,
        // so a crash is always attributable to the request that was being evaluated.
        // (fork is slow and does not scale across processes on this kind of VM, so only requests marked
        // "isolate" - those whose data may deserialize into unsound values - pay for it)
        let pid = if req["isolate"].as_bool() == Some(true) { unsafe { libc::fork() } } else { -1 };
        if pid == 0 {
            // the time limit is CPU time of this child (SIGXCPU), so that a loaded machine cannot turn a slow
            // evaluation into a verdict; a generous wall-clock alarm is only a backstop and is reported as such
            unsafe {
                let cpu = libc::rlimit { rlim_cur: timeout_s, rlim_max: timeout_s + 5 };
                libc::setrlimit(libc::RLIMIT_CPU, &cpu);
                libc::alarm((timeout_s * 45) as libc::c_uint);
            }
            let ans = handle(&req);
            let mut out = stdout.lock();
            let _ = writeln!(out, "{}", ans);
            let _ = out.flush();
            unsafe { libc::_exit(0) };
        } else if pid > 0 {
            let mut status: libc::c_int = 0;
            unsafe { libc::waitpid(pid, &mut status, 0) };
            // the child arms an alarm for itself: SIGALRM = it ran longer than the time limit
            let timed_out = libc::WIFSIGNALED(status) && libc::WTERMSIG(status) == libc::SIGXCPU;
            let wall = libc::WIFSIGNALED(status) && libc::WTERMSIG(status) == libc::SIGALRM;
            let ok = !timed_out && !wall && libc::WIFEXITED(status) && libc::WEXITSTATUS(status) == 0;
            if !ok {
                let how = if timed_out { format!("timeout after {timeout_s} s of CPU time") } else if wall { format!("{WALL_BACKSTOP}: no answer within {} s of wall-clock time (machine overloaded?)", timeout_s * 45) } else if libc::WIFSIGNALED(status) { format!("signal {}", libc::WTERMSIG(status)) } else { format!("exit status {}", libc::WEXITSTATUS(status)) };
                let mut out = stdout.lock();
                let _ = writeln!(out, "{}", json!({"died": how}));
                let _ = out.flush();
            }
        } else {
            let ans = handle(&req);
            let mut out = stdout.lock();
            let _ = writeln!(out, "{}", ans);
            let _ = out.flush();
        }
    }
}

// ---------------------------------------------------------------------------------------------
// parent side

pub struct Worker {
    child: Child,
    stdin: ChildStdin,
    stdout: BufReader<ChildStdout>,
    pub restarts: u64,
    pub requests: u64,
}

#[derive(Debug, Clone)]
pub enum Answer {
    Ok(Value),
    Panic(String),
    /// the worker process died while evaluating the request (signal number or exit status)
    Died(String),
}

fn spawn() -> (Child, ChildStdin, ChildStdout) {
    let exe = std::env::current_exe().expect("current exe");
    let mut child = Command::new(exe).arg("worker").stdin(Stdio::piped()).stdout(Stdio::piped()).stderr(Stdio::null()).spawn().expect("spawn worker");
    let stdin = child.stdin.take().unwrap();
    let stdout = child.stdout.take().unwrap();
    (child, stdin, stdout)
}

impl Worker {
    pub fn new() -> Worker {
        let (child, stdin, stdout) = spawn();
        Worker { child, stdin, stdout: BufReader::new(stdout), restarts: 0, requests: 0 }
    }

    fn restart(&mut self) -> String {
        let _ = self.child.kill();
        let status = self.child.wait().map(|s| {
            use std::os::unix::process::ExitStatusExt;
            match (s.signal(), s.code()) {
                (Some(sig), _) => format!("signal {sig}"),
                (_, Some(c)) => format!("exit status {c}"),
                _ => "unknown".into(),
            }
        });
        let (child, stdin, stdout) = spawn();
        self.child = child;
        self.stdin = stdin;
        self.stdout = BufReader::new(stdout);
        self.restarts += 1;
        status.unwrap_or_else(|e| e.to_string())
    }

    pub fn ask(&mut self, req: &Value) -> Answer {
        let t0 = std::time::Instant::now();
        let a = self.ask_inner(req);
        if t0.elapsed().as_secs_f64() > 1.0 {
            if let Ok(path) = std::env::var("VERIF_SLOW_LOG") {
                use std::io::Write as _;
                if let Ok(mut f) = std::fs::OpenOptions::new().create(true).append(true).open(path) {
                    let _ = writeln!(f, "{:.1}s {:?} {}", t0.elapsed().as_secs_f64(), match &a { Answer::Ok(o) => format!("ok {}", o["ret_code"]), Answer::Panic(p) => format!("panic {}", p.chars().take(80).collect::<String>()), Answer::Died(d) => format!("died {d}") }, req.to_string().chars().take(3000).collect::<String>());
                }
            }
        }
        a
    }

    fn ask_inner(&mut self, req: &Value) -> Answer {
        self.requests += 1;
        let line = format!("{req}\n");
        if self.stdin.write_all(line.as_bytes()).is_err() || self.stdin.flush().is_err() {
            let st = self.restart();
            return Answer::Died(format!("worker not writable ({st})"));
        }
        // bytes, not a String: a panic message produced from corrupted data may hold invalid UTF-8
        let mut raw: Vec<u8> = vec![];
        match self.stdout.read_until(b'\n', &mut raw) {
            Ok(n) if n > 0 && raw.ends_with(b"\n") => {
                let ans = String::from_utf8_lossy(&raw).into_owned();
                let v: Value = serde_json::from_str(ans.trim_end()).unwrap_or(Value::Null);
                if let Some(p) = v.get("panic") {
                    return Answer::Panic(p.as_str().unwrap_or("").to_string());
                }
                if let Some(o) = v.get("ok") {
                    return Answer::Ok(o.clone());
                }
                if let Some(d) = v.get("died") {
                    return Answer::Died(d.as_str().unwrap_or("").to_string());
                }
                Answer::Died(format!("malformed answer {}", ans.chars().take(200).collect::<String>()))
            }
            other => {
                if std::env::var("VERIF_DEBUG").is_ok() {
                    crate::host::elog(&format!("[worker] read failed: {other:?}, {} bytes so far, request {}", raw.len(), req.to_string().chars().take(200).collect::<String>()));
                }
                // give the child a moment to be reaped so that the signal is visible
                let st = {
                    let _ = self.child.try_wait();
                    self.restart_after_death()
                };
                Answer::Died(st)
            }
        }
    }

    fn restart_after_death(&mut self) -> String {
        // normally the child is gone already; if it is not (a half-written answer), it must not be waited for alive
        if let Ok(None) = self.child.try_wait() {
            std::thread::sleep(std::time::Duration::from_millis(50));
            if let Ok(None) = self.child.try_wait() {
                let _ = self.child.kill();
            }
        }
        let status = self.child.wait().map(|s| {
            use std::os::unix::process::ExitStatusExt;
            match (s.signal(), s.code()) {
                (Some(sig), _) => format!("signal {sig}"),
                (_, Some(c)) => format!("exit status {c}"),
                _ => "unknown".into(),
            }
        });
        let (child, stdin, stdout) = spawn();
        self.child = child;
        self.stdin = stdin;
        self.stdout = BufReader::new(stdout);
        self.restarts += 1;
        status.unwrap_or_else(|e| e.to_string())
    }
}

impl Drop for Worker {
    fn drop(&mut self) {
        let _ = self.child.kill();
        let _ = self.child.wait();
    }
}

/// Convenience: an `exec` request.
pub fn exec_req(air: &str, peer: &str, init: &str, particle: &str, prev: &[u8], cur: &[u8], results: &[u8]) -> Value {
    json!({"op": "exec", "air": air, "peer": peer, "init": init, "particle": particle, "prev": hex(prev), "cur": hex(cur), "results": hex(results)})
}

/// True if `bytes` is an envelope whose inner data passes rkyv validation: only then can the interpreter
/// deserialize it, and only then can a byte-level corruption have produced values that are unsound to use
/// (rkyv 0.7 validates a shared pointer's target once per address, see DESIGN.md C01). Validation itself
/// only reads inside the buffer.
pub fn inner_data_validates(bytes: &[u8]) -> bool {
    let Ok(env) = air_interpreter_data::InterpreterDataEnvelope::try_from_slice(bytes) else { return false };
    let mut aligned = rkyv::AlignedVec::with_capacity(env.inner_data.len());
    aligned.extend_from_slice(&env.inner_data);
    rkyv::check_archived_root::<air_interpreter_data::InterpreterData>(&aligned[..]).is_ok()
}

/// True if the inner data of `bytes` deserializes and some reference-counted string in it (content ids,
/// argument hashes: the `Rc<str>` fields) is not valid UTF-8 or is absurdly long. A `str` like that cannot be
/// built by sound code: it is the footprint of rkyv 0.7 validating a shared pointer's target only once per
/// address, so that a second pointer to the same address with another length goes unchecked and then
/// deserializes into the first one's allocation. Only called inside an isolated child.
pub fn unsound_strings(bytes: &[u8]) -> bool {
    use air_interpreter_data::{CallResult, CanonResult, ExecutedState, InterpreterData, InterpreterDataEnvelope, Provenance, ValueRef};
    let Ok(env) = InterpreterDataEnvelope::try_from_slice(bytes) else { return false };
    let Ok(data) = InterpreterData::try_from_slice(&env.inner_data) else { return false };
    let mut strs: Vec<std::rc::Rc<str>> = vec![];
    for st in data.trace.iter() {
        match st {
            ExecutedState::Call(CallResult::Executed(ValueRef::Unused(c))) => strs.push(c.get_inner()),
            ExecutedState::Call(c) => {
                if let Some(cid) = c.get_cid() {
                    strs.push(cid.get_inner());
                }
            }
            ExecutedState::Canon(CanonResult::Executed(c)) => strs.push(c.get_inner()),
            _ => {}
        }
    }
    let ci = &data.cid_info;
    for (k, _) in ci.value_store.iter() {
        strs.push(k.get_inner());
    }
    for (k, _) in ci.tetraplet_store.iter() {
        strs.push(k.get_inner());
    }
    for (k, v) in ci.service_result_store.iter() {
        strs.push(k.get_inner());
        strs.push(v.value_cid.get_inner());
        strs.push(v.tetraplet_cid.get_inner());
        strs.push(v.argument_hash.clone());
    }
    for (k, v) in ci.canon_result_store.iter() {
        strs.push(k.get_inner());
        strs.push(v.tetraplet.get_inner());
        for e in &v.values {
            strs.push(e.get_inner());
        }
    }
    for (k, v) in ci.canon_element_store.iter() {
        strs.push(k.get_inner());
        strs.push(v.value.get_inner());
        strs.push(v.tetraplet.get_inner());
        match &v.provenance {
            Provenance::Literal => {}
            Provenance::ServiceResult { cid } => strs.push(cid.get_inner()),
            Provenance::Canon { cid } => strs.push(cid.get_inner()),
        }
    }
    // the footprint itself: two reference-counted strings that share one allocation but disagree on its length
    let mut by_ptr: std::collections::HashMap<usize, usize> = Default::default();
    let mut shared_mismatch = false;
    for s in &strs {
        let ptr = s.as_ptr() as usize;
        match by_ptr.get(&ptr) {
            Some(len) if *len != s.len() => shared_mismatch = true,
            _ => {
                by_ptr.insert(ptr, s.len());
            }
        }
    }
    let bad = shared_mismatch || strs.iter().any(|s| s.len() > 4096 || std::str::from_utf8(s.as_bytes()).is_err());
    // never run destructors of possibly unsound values
    std::mem::forget(strs);
    std::mem::forget(data);
    bad
}
