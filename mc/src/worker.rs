//! Isolation for untrusted-input evaluations: `mc worker` is the same binary run as a child process with an
//! address-space limit; it answers one JSON request per line. A panic is caught and reported with its
//! location; a dead worker (signal, abort, allocation failure) is attributed to the request in flight and the
//! worker is restarted. Nothing evaluated in a worker can corrupt the harness's own memory.

use crate::host::{self, make_peer, Limits, Particle};

use serde_json::{json, Value};
use std::io::{BufRead, BufReader, Write};
use std::process::{Child, ChildStdin, ChildStdout, Command, Stdio};

pub fn hex(b: &[u8]) -> String {
    const T: &[u8; 16] = b"0123456789abcdef";
    let mut s = String::with_capacity(b.len() * 2);
    for x in b {
        s.push(T[(x >> 4) as usize] as char);
        s.push(T[(x & 15) as usize] as char);
    }
    s
}

pub fn unhex(s: &str) -> Vec<u8> {
    let b = s.as_bytes();
    let v = |c: u8| match c {
        b'0'..=b'9' => c - b'0',
        b'a'..=b'f' => c - b'a' + 10,
        _ => 0,
    };
    (0..b.len() / 2).map(|i| v(b[2 * i]) << 4 | v(b[2 * i + 1])).collect()
}

// ---------------------------------------------------------------------------------------------
// child side

fn handle(req: &Value) -> Value {
    let op = req["op"].as_str().unwrap_or("");
    let r = std::panic::catch_unwind(std::panic::AssertUnwindSafe(|| -> Value {
        match op {
            "exec" => {
                let peer = make_peer(req["peer"].as_str().unwrap_or("A"));
                let init = match req["init_id"].as_str() {
                    Some(i) => i.to_string(),
                    None => make_peer(req["init"].as_str().unwrap_or("A")).id,
                };
                let part = Particle {
                    script: req["air"].as_str().unwrap_or("").to_string(),
                    init_peer_id: init,
                    particle_id: req["particle"].as_str().unwrap_or("particle-1").to_string(),
                    timestamp: 1_700_000_000_000,
                    ttl: 30_000,
                };
                let prev = unhex(req["prev"].as_str().unwrap_or(""));
                let cur = unhex(req["cur"].as_str().unwrap_or(""));
                let results = unhex(req["results"].as_str().unwrap_or(""));
                let lim = Limits::default();
                match host::run_raw(&part, &peer, &prev, &cur, results, &lim) {
                    Ok(o) => {
                        let same = o.data == prev;
                        json!({"ok": {"ret_code": o.ret_code, "error_message": o.error_message, "data_eq_prev": same, "data": if same { String::new() } else { hex(&o.data) }, "next": o.next_peer_pks, "requests": hex(&o.call_requests)}})
                    }
                    Err(p) => json!({"panic": p}),
                }
            }
            "parse" => {
                let t = req["text"].as_str().unwrap_or("");
                match air_parser::parse(t) {
                    Ok(ast) => json!({"ok": {"parsed": true, "error_nodes": crate::e2f::count_error_nodes(&ast)}}),
                    Err(e) => json!({"ok": {"parsed": false, "report_len": e.len()}}),
                }
            }
            "beautify" => {
                let t = req["text"].as_str().unwrap_or("");
                let r = air_beautifier::beautify_to_string(t);
                json!({"ok": {"beautified": r.is_ok()}})
            }
            "human" => {
                let d = unhex(req["data"].as_str().unwrap_or(""));
                let r = air::to_human_readable_data(d);
                json!({"ok": {"readable": r.is_ok()}})
            }
            "decode" => {
                let d = unhex(req["data"].as_str().unwrap_or(""));
                let env = air_interpreter_data::InterpreterDataEnvelope::try_from_slice(&d);
                let inner = env.as_ref().ok().map(|e| air_interpreter_data::InterpreterData::try_from_slice(&e.inner_data).is_ok());
                json!({"ok": {"envelope": env.is_ok(), "inner": inner}})
            }
            "ping" => json!({"ok": "pong"}),
            _ => json!({"error": format!("unknown op {op}")}),
        }
    }));
    match r {
        Ok(v) => v,
        Err(_) => json!({"panic": host::take_last_panic().unwrap_or_else(|| "<unknown>".into())}),
    }
}

pub fn worker_main() -> i32 {
    // address-space limit: "memory out of proportion" = more than this for inputs of a few hundred KB at most
    let gib: u64 = std::env::var("VERIF_WORKER_AS_GIB").ok().and_then(|s| s.parse().ok()).unwrap_or(4);
    unsafe {
        let lim = libc::rlimit { rlim_cur: gib << 30, rlim_max: gib << 30 };
        libc::setrlimit(libc::RLIMIT_AS, &lim);
        let core = libc::rlimit { rlim_cur: 0, rlim_max: 0 };
        libc::setrlimit(libc::RLIMIT_CORE, &core);
    }
    let stdin = std::io::stdin();
    let stdout = std::io::stdout();
    let mut line = String::new();
    loop {
        line.clear();
        match stdin.lock().read_line(&mut line) {
            Ok(0) | Err(_) => return 0,
            Ok(_) => {}
        }
        let req: Value = serde_json::from_str(line.trim_end()).unwrap_or(Value::Null);
        let ans = handle(&req);
        let mut out = stdout.lock();
        let _ = writeln!(out, "{}", ans);
        let _ = out.flush();
    }
}

// ---------------------------------------------------------------------------------------------
// parent side

pub struct Worker {
    child: Child,
    stdin: ChildStdin,
    stdout: BufReader<ChildStdout>,
    pub restarts: u64,
    pub requests: u64,
}

#[derive(Debug, Clone)]
pub enum Answer {
    Ok(Value),
    Panic(String),
    /// the worker process died while evaluating the request (signal number or exit status)
    Died(String),
}

fn spawn() -> (Child, ChildStdin, ChildStdout) {
    let exe = std::env::current_exe().expect("current exe");
    let mut child = Command::new(exe).arg("worker").stdin(Stdio::piped()).stdout(Stdio::piped()).stderr(Stdio::null()).spawn().expect("spawn worker");
    let stdin = child.stdin.take().unwrap();
    let stdout = child.stdout.take().unwrap();
    (child, stdin, stdout)
}

impl Worker {
    pub fn new() -> Worker {
        let (child, stdin, stdout) = spawn();
        Worker { child, stdin, stdout: BufReader::new(stdout), restarts: 0, requests: 0 }
    }

    fn restart(&mut self) -> String {
        let _ = self.child.kill();
        let status = self.child.wait().map(|s| {
            use std::os::unix::process::ExitStatusExt;
            match (s.signal(), s.code()) {
                (Some(sig), _) => format!("signal {sig}"),
                (_, Some(c)) => format!("exit status {c}"),
                _ => "unknown".into(),
            }
        });
        let (child, stdin, stdout) = spawn();
        self.child = child;
        self.stdin = stdin;
        self.stdout = BufReader::new(stdout);
        self.restarts += 1;
        status.unwrap_or_else(|e| e.to_string())
    }

    pub fn ask(&mut self, req: &Value) -> Answer {
        self.requests += 1;
        let line = format!("{req}\n");
        if self.stdin.write_all(line.as_bytes()).is_err() || self.stdin.flush().is_err() {
            let st = self.restart();
            return Answer::Died(format!("worker not writable ({st})"));
        }
        let mut ans = String::new();
        match self.stdout.read_line(&mut ans) {
            Ok(n) if n > 0 => {
                let v: Value = serde_json::from_str(ans.trim_end()).unwrap_or(Value::Null);
                if let Some(p) = v.get("panic") {
                    return Answer::Panic(p.as_str().unwrap_or("").to_string());
                }
                if let Some(o) = v.get("ok") {
                    return Answer::Ok(o.clone());
                }
                Answer::Died(format!("malformed answer {}", ans.chars().take(200).collect::<String>()))
            }
            _ => {
                // give the child a moment to be reaped so that the signal is visible
                let st = {
                    let _ = self.child.try_wait();
                    self.restart_after_death()
                };
                Answer::Died(st)
            }
        }
    }

    fn restart_after_death(&mut self) -> String {
        let status = self.child.wait().map(|s| {
            use std::os::unix::process::ExitStatusExt;
            match (s.signal(), s.code()) {
                (Some(sig), _) => format!("signal {sig}"),
                (_, Some(c)) => format!("exit status {c}"),
                _ => "unknown".into(),
            }
        });
        let (child, stdin, stdout) = spawn();
        self.child = child;
        self.stdin = stdin;
        self.stdout = BufReader::new(stdout);
        self.restarts += 1;
        status.unwrap_or_else(|e| e.to_string())
    }
}

impl Drop for Worker {
    fn drop(&mut self) {
        let _ = self.child.kill();
        let _ = self.child.wait();
    }
}

/// Convenience: an `exec` request.
pub fn exec_req(air: &str, peer: &str, init: &str, particle: &str, prev: &[u8], cur: &[u8], results: &[u8]) -> Value {
    json!({"op": "exec", "air": air, "peer": peer, "init": init, "particle": particle, "prev": hex(prev), "cur": hex(cur), "results": hex(results)})
}
