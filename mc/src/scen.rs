//! Small scripted histories on the real interpreter (used by the input enumerations to obtain honest data,
//! pending requests and victims): a thin driver over the same host model and `apply` the explorer uses.

use crate::netmc::{apply, initial, Action, BlobId, Cx, RunId, State, World};
use crate::script::{Script, I};

pub struct Scen {
    pub cx: Cx,
    pub st: State,
    pub log: Vec<(Action, RunId)>,
}

impl Scen {
    pub fn new(name: &str, ast: I, peers: &[&str]) -> Scen {
        Scen::with_particle(name, ast, peers, "particle-1")
    }

    pub fn with_particle(name: &str, ast: I, peers: &[&str], particle_id: &str) -> Scen {
        let script = Script { family: "SCEN".into(), name: name.into(), ast, peers: peers.iter().map(|s| s.to_string()).collect() };
        let world = World::new(&script, &["O"], particle_id);
        let mut cx = Cx::new(world);
        let s0 = initial(&cx.world);
        let (r, st) = apply(&mut cx, &s0, &Action::Init);
        Scen { cx, st, log: vec![(Action::Init, r)] }
    }

    pub fn pidx(&self, name: &str) -> usize {
        self.cx.world.peers.iter().position(|p| p.name == name).expect("peer name")
    }

    fn step(&mut self, act: Action) -> RunId {
        let (r, post) = apply(&mut self.cx, &self.st, &act);
        self.st = post;
        self.log.push((act, r));
        r
    }

    /// Answers all pending requests of `peer` at once.
    pub fn ret(&mut self, peer: &str) -> RunId {
        let p = self.pidx(peer);
        let ids: Vec<u32> = self.st.pending[p].keys().cloned().collect();
        assert!(!ids.is_empty(), "nothing pending at {peer}");
        self.step(Action::Return { peer: p as u8, ids })
    }

    pub fn ret_ids(&mut self, peer: &str, ids: &[u32]) -> RunId {
        let p = self.pidx(peer);
        self.step(Action::Return { peer: p as u8, ids: ids.to_vec() })
    }

    /// In-flight messages addressed to `peer` (blob ids, ascending).
    pub fn inflight_for(&self, peer: &str) -> Vec<BlobId> {
        let p = self.pidx(peer) as u8;
        self.st.inflight.iter().filter(|(d, _)| *d == p).map(|(_, b)| *b).collect()
    }

    /// Delivers the `k`-th in-flight message addressed to `peer` (consumed unless `keep`).
    pub fn deliver(&mut self, peer: &str, k: usize, keep: bool) -> RunId {
        let b = self.inflight_for(peer)[k];
        let p = self.pidx(peer) as u8;
        self.step(Action::Deliver { dest: p, blob: b, keep })
    }

    /// Runs everything to quiescence with the default environment (deliver oldest, answer everything).
    pub fn settle(&mut self, max_steps: usize) {
        for _ in 0..max_steps {
            if let Some(p) = (0..self.st.pending.len()).find(|p| !self.st.pending[*p].is_empty()) {
                let ids: Vec<u32> = self.st.pending[p].keys().cloned().collect();
                self.step(Action::Return { peer: p as u8, ids });
                continue;
            }
            if let Some((d, b)) = self.st.inflight.iter().next().cloned() {
                self.step(Action::Deliver { dest: d, blob: b, keep: false });
                continue;
            }
            return;
        }
    }

    pub fn prev_bytes(&self, peer: &str) -> Vec<u8> {
        self.cx.bytes(self.st.prev[self.pidx(peer)]).to_vec()
    }

    pub fn blob_bytes(&self, b: BlobId) -> Vec<u8> {
        self.cx.bytes(b).to_vec()
    }

    pub fn run(&self, r: RunId) -> &crate::netmc::RunRec {
        &self.cx.runs[r as usize]
    }
}
