//! The attacker's toolkit (C01, C14, C15): edit the JSON tree of decoded interpreter data, recompute content
//! ids where the attack wants consistency, re-sign the attacker's own result set with the attacker's key,
//! re-encode. Public API of the repository only; nothing here runs the interpreter.

use crate::host::Peer;

use air_interpreter_cid::{raw_value_to_json_cid, value_to_json_cid, CID};
use air_interpreter_data::{CallResult, CanonCidAggregate, CanonResult, CanonResultCidAggregate, ExecutedState, InterpreterData, InterpreterDataEnvelope, Provenance, RawValue, ServiceResultCidAggregate};
use polyplets::SecurityTetraplet;
use serde_json::{json, Value};
use std::rc::Rc;

pub fn decode_json(bytes: &[u8]) -> Result<(Value, String), String> {
    let env = InterpreterDataEnvelope::try_from_slice(bytes).map_err(|e| format!("envelope: {e}"))?;
    let data = InterpreterData::try_from_slice(&env.inner_data).map_err(|e| format!("inner: {e}"))?;
    let j = serde_json::to_value(&data).map_err(|e| e.to_string())?;
    Ok((j, env.versions.interpreter_version.to_string()))
}

/// The multiset of content ids a verifier attributes to `peer_id` in `data` (lenient: unresolvable
/// references are skipped, the verifier itself would reject or crash on them).
pub fn peer_cids(data: &InterpreterData, peer_id: &str) -> Vec<Rc<str>> {
    let mut out: Vec<Rc<str>> = vec![];
    for st in data.trace.iter() {
        match st {
            ExecutedState::Call(c) => {
                if let Some(cid) = c.get_cid() {
                    let owner = data.cid_info.service_result_store.get(cid).and_then(|a| data.cid_info.tetraplet_store.get(&a.tetraplet_cid)).map(|t| t.peer_pk.clone());
                    if owner.as_deref() == Some(peer_id) {
                        out.push(cid.get_inner());
                    }
                }
            }
            ExecutedState::Canon(CanonResult::Executed(cid)) => {
                let owner = data.cid_info.canon_result_store.get(cid).and_then(|a| data.cid_info.tetraplet_store.get(&a.tetraplet)).map(|t| t.peer_pk.clone());
                if owner.as_deref() == Some(peer_id) {
                    out.push(cid.get_inner());
                }
            }
            _ => {}
        }
    }
    out
}

/// Result of building an attack blob.
pub enum Built {
    Bytes(Vec<u8>),
    /// the edited tree is not even a well-formed InterpreterData (serde refuses it): nothing to send
    NotEncodable(String),
}

/// JSON tree -> typed data -> (re-sign for each signer) -> envelope bytes.
pub fn finish(json: &Value, version: &str, signers: &[&Peer], salt: &str) -> Built {
    let mut data: InterpreterData = match serde_json::from_value(json.clone()) {
        Ok(d) => d,
        Err(e) => return Built::NotEncodable(e.to_string()),
    };
    for p in signers {
        let cids = peer_cids(&data, &p.id);
        match air_interpreter_signatures::sign_cids(cids, salt, p.kp.as_inner()) {
            Ok(sig) => data.signatures.put(p.kp.public(), sig.into()),
            Err(e) => return Built::NotEncodable(format!("signing: {e}")),
        }
    }
    let r = std::panic::catch_unwind(std::panic::AssertUnwindSafe(|| crate::data::encode_data(data, version)));
    match r {
        Ok(Ok(b)) => Built::Bytes(b),
        Ok(Err(e)) => Built::NotEncodable(e),
        Err(_) => Built::NotEncodable("encoder panicked".into()),
    }
}

// ---------------------------------------------------------------------------------------------
// consistent forging of store entries (content ids recomputed the way the stores verify them)

pub fn add_value(json: &mut Value, raw: &str) -> String {
    let cid = raw_value_to_json_cid::<RawValue>(raw.as_bytes()).get_inner().to_string();
    json["cid_info"]["value_store"][&cid] = json!(raw);
    cid
}

pub fn add_tetraplet(json: &mut Value, peer: &str, service: &str, function: &str, lens: &str) -> String {
    let t = SecurityTetraplet::new(peer, service, function, lens);
    let cid = value_to_json_cid(&t).expect("tetraplet cid").get_inner().to_string();
    json["cid_info"]["tetraplet_store"][&cid] = serde_json::to_value(&t).unwrap();
    cid
}

pub fn add_service_result(json: &mut Value, value_cid: &str, argument_hash: &str, tetraplet_cid: &str) -> String {
    let agg = ServiceResultCidAggregate { value_cid: CID::new(value_cid), argument_hash: argument_hash.into(), tetraplet_cid: CID::new(tetraplet_cid) };
    let cid = value_to_json_cid(&agg).expect("service result cid").get_inner().to_string();
    json["cid_info"]["service_result_store"][&cid] = serde_json::to_value(&agg).unwrap();
    cid
}

pub fn add_canon_element(json: &mut Value, value_cid: &str, tetraplet_cid: &str, provenance: Provenance) -> String {
    let agg = CanonCidAggregate { value: CID::new(value_cid), tetraplet: CID::new(tetraplet_cid), provenance };
    let cid = value_to_json_cid(&agg).expect("canon element cid").get_inner().to_string();
    json["cid_info"]["canon_element_store"][&cid] = serde_json::to_value(&agg).unwrap();
    cid
}

pub fn add_canon_result(json: &mut Value, tetraplet_cid: &str, elements: &[String]) -> String {
    let agg = CanonResultCidAggregate { tetraplet: CID::new(tetraplet_cid), values: elements.iter().map(|e| CID::new(e.as_str())).collect() };
    let cid = value_to_json_cid(&agg).expect("canon result cid").get_inner().to_string();
    json["cid_info"]["canon_result_store"][&cid] = serde_json::to_value(&agg).unwrap();
    cid
}

// ---------------------------------------------------------------------------------------------
// a view of the trace entries of the JSON tree

#[derive(Clone, Debug, PartialEq)]
pub enum Slot {
    /// (kind: scalar | stream | unused | failed, cid)
    CallDone(String, String),
    CallSent,
    CanonDone(String),
    CanonSent,
    Par,
    Fold,
    Ap,
    Other,
}

pub fn slot_of(entry: &Value) -> Slot {
    if let Some(c) = entry.get("call") {
        if let Some(e) = c.get("executed") {
            for k in ["scalar", "unused"] {
                if let Some(cid) = e.get(k).and_then(|x| x.as_str()) {
                    return Slot::CallDone(k.into(), cid.into());
                }
            }
            if let Some(cid) = e.get("stream").and_then(|s| s.get("cid")).and_then(|x| x.as_str()) {
                return Slot::CallDone("stream".into(), cid.into());
            }
        }
        if let Some(cid) = c.get("failed").and_then(|x| x.as_str()) {
            return Slot::CallDone("failed".into(), cid.into());
        }
        if c.get("sent_by").is_some() {
            return Slot::CallSent;
        }
        return Slot::Other;
    }
    if let Some(c) = entry.get("canon") {
        if let Some(cid) = c.get("executed").and_then(|x| x.as_str()) {
            return Slot::CanonDone(cid.into());
        }
        if c.get("sent_by").is_some() {
            return Slot::CanonSent;
        }
        return Slot::Other;
    }
    if entry.get("par").is_some() {
        return Slot::Par;
    }
    if entry.get("fold").is_some() {
        return Slot::Fold;
    }
    if entry.get("ap").is_some() {
        return Slot::Ap;
    }
    Slot::Other
}

/// Replaces the content id carried by a done call / canon entry, keeping its kind.
pub fn set_slot_cid(entry: &mut Value, cid: &str) {
    if let Some(c) = entry.get_mut("call") {
        if let Some(e) = c.get_mut("executed") {
            for k in ["scalar", "unused"] {
                if e.get(k).is_some() {
                    e[k] = json!(cid);
                    return;
                }
            }
            if e.get("stream").is_some() {
                e["stream"]["cid"] = json!(cid);
                return;
            }
        }
        if c.get("failed").is_some() {
            c["failed"] = json!(cid);
        }
        return;
    }
    if let Some(c) = entry.get_mut("canon") {
        if c.get("executed").is_some() {
            c["executed"] = json!(cid);
        }
    }
}

/// (value cid, argument hash, tetraplet cid, tetraplet) of a service result aggregate in the tree
pub fn service_agg(json: &Value, cid: &str) -> Option<(String, String, String, Value)> {
    let a = json["cid_info"]["service_result_store"].get(cid)?;
    let v = a["value_cid"].as_str()?.to_string();
    let h = a["argument_hash"].as_str()?.to_string();
    let t = a["tetraplet_cid"].as_str()?.to_string();
    let tet = json["cid_info"]["tetraplet_store"].get(&t).cloned().unwrap_or(Value::Null);
    Some((v, h, t, tet))
}

pub fn owner_of_slot(json: &Value, s: &Slot) -> Option<String> {
    match s {
        Slot::CallDone(kind, cid) if kind != "unused" => service_agg(json, cid).and_then(|a| a.3["peer_pk"].as_str().map(|x| x.to_string())),
        Slot::CanonDone(cid) => {
            let a = json["cid_info"]["canon_result_store"].get(cid)?;
            let t = a["tetraplet"].as_str()?;
            json["cid_info"]["tetraplet_store"].get(t)?.get("peer_pk")?.as_str().map(|x| x.to_string())
        }
        _ => None,
    }
}

pub fn unused_call_result(cid: &str) -> CallResult {
    CallResult::executed_unused(CID::new(cid))
}
