//! Engine E2, C27: data, envelope, call-request and call-result encodings round-trip; the version part of an
//! envelope stays readable when the inner data is not; payloads tagged with another codec are refused.

use crate::check::{Report, Tier};
use crate::data;
use crate::e2b::{e2_report, to_violations, victim, Found};
use crate::host::Limits;
use crate::mon_local::codes;
use crate::netmc::{self, Cfg, Monitor, World};
use crate::worker::{Answer, Worker};

use air_interpreter_data::{InterpreterData, InterpreterDataEnvelope};
use air_interpreter_interface::{CallArgumentsRepr, CallRequestParams, CallRequests, CallRequestsRepr, CallResults, CallResultsRepr, CallServiceResult, InterpreterOutcome, TetrapletsRepr};
use air_interpreter_sede::{FromSerialized, ToSerialized};
use air_interpreter_value::JValue;
use polyplets::SecurityTetraplet;
use serde_json::{json, Value};
use std::collections::{BTreeMap, BTreeSet, HashMap};
use std::rc::Rc;

struct Noop;
impl Monitor for Noop {}

/// Honest data blobs harvested from explorations (distinct by canonical content).
fn harvest(tier: Tier) -> Vec<(String, Vec<u8>)> {
    let mut scripts = crate::families::stream_family(0);
    scripts.extend(crate::families::map_family(0));
    scripts.extend(crate::families::err_family(0));
    let stride = if tier == Tier::Quick { 23 } else { 5 };
    let cfg = Cfg { state_cap: if tier == Tier::Quick { 400 } else { 3000 }, stop_at_first_violation: false, ..Default::default() };
    let mut out = vec![];
    let mut seen = BTreeSet::new();
    for s in scripts.iter().step_by(stride) {
        let world = World::new(s, &["O"], "particle-1");
        let ex = netmc::explore(world, &cfg, &mut Noop);
        for b in &ex.cx.blobs {
            if b.bytes.is_empty() {
                continue;
            }
            if let Ok(d) = &b.dec {
                if seen.insert(d.canon.clone()) {
                    out.push((s.name.clone(), b.bytes.clone()));
                }
            }
        }
    }
    out
}

fn hex(b: &[u8]) -> String {
    b.iter().map(|x| format!("{x:02x}")).collect()
}

fn unhex(s: &str) -> Vec<u8> {
    (0..s.len() / 2).map(|i| u8::from_str_radix(&s[2 * i..2 * i + 2], 16).unwrap_or(0)).collect()
}

/// data blob: decode -> encode -> decode, three routes.
pub fn c27_data(blob: &[u8]) -> Found {
    let mut out: Found = vec![];
    let d = match data::decode(blob) {
        Ok(d) => d,
        Err(e) => return vec![("C27/honest-data-does-not-decode".into(), e)],
    };
    // route 1: typed data -> rkyv bytes -> typed data
    match d.data.serialize() {
        Ok(bytes) => match InterpreterData::try_from_slice(&bytes) {
            Ok(back) => {
                let j = serde_json::to_value(&back).unwrap_or(Value::Null);
                if crate::host::canon_json_text(&j) != crate::host::canon_json_text(&d.json) {
                    out.push(("C27/data-round-trip-changes-content".into(), "InterpreterData::serialize then try_from_slice gives different data".into()));
                }
            }
            Err(e) => out.push(("C27/encoded-data-does-not-decode".into(), e.to_string())),
        },
        Err(e) => out.push(("C27/data-does-not-encode".into(), e.to_string())),
    }
    // route 2: the whole envelope through the public constructor
    match data::encode_data(d.data.clone(), &d.interpreter_version) {
        Ok(bytes) => match data::decode(&bytes) {
            Ok(back) => {
                if back.canon != d.canon {
                    out.push(("C27/envelope-round-trip-changes-content".into(), "from_execution_result + serialize + decode gives different data or versions".into()));
                }
            }
            Err(e) => out.push(("C27/encoded-envelope-does-not-decode".into(), e)),
        },
        Err(e) => out.push(("C27/envelope-does-not-encode".into(), e)),
    }
    // route 3: envelope struct re-serialized as is must give a decodable equal envelope
    match InterpreterDataEnvelope::try_from_slice(blob) {
        Ok(env) => match env.serialize() {
            Ok(bytes) => match data::decode(&bytes) {
                Ok(back) if back.canon == d.canon => {}
                Ok(_) => out.push(("C27/envelope-round-trip-changes-content".into(), "envelope.serialize differs".into())),
                Err(e) => out.push(("C27/encoded-envelope-does-not-decode".into(), e)),
            },
            Err(e) => out.push(("C27/envelope-does-not-encode".into(), e.to_string())),
        },
        Err(e) => out.push(("C27/honest-data-does-not-decode".into(), e.to_string())),
    }
    // versions alone
    match InterpreterDataEnvelope::try_get_versions(blob) {
        Ok(v) => {
            if v.interpreter_version.to_string() != d.interpreter_version || v.data_version.to_string() != d.data_version {
                out.push(("C27/versions-read-differently".into(), format!("{} / {}", v.interpreter_version, v.data_version)));
            }
        }
        Err(e) => out.push(("C27/versions-unreadable-on-honest-data".into(), e.to_string())),
    }
    out
}

/// An envelope whose inner data is broken (kind, parameter): versions must stay readable, and the interpreter
/// must answer with a data-deserialization error that still returns the previous data.
pub fn c27_broken_inner(w: &mut Worker, blob: &[u8], kind: &str, n: usize) -> Found {
    let mut out: Found = vec![];
    let env = match InterpreterDataEnvelope::try_from_slice(blob) {
        Ok(e) => e,
        Err(e) => return vec![("MACHINERY/honest-envelope".into(), e.to_string())],
    };
    let inner = env.inner_data.to_vec();
    let broken: Vec<u8> = match kind {
        "truncate" => inner[..n.min(inner.len())].to_vec(),
        "flip" => {
            let mut b = inner.clone();
            if !b.is_empty() {
                let i = n % b.len();
                b[i] ^= 0xff;
            }
            b
        }
        "zero-tail" => {
            let mut b = inner.clone();
            let k = n.min(b.len());
            let len = b.len();
            for x in &mut b[len - k..] {
                *x = 0;
            }
            b
        }
        "garbage" => (0..n).map(|i| (i * 37 + 11) as u8).collect(),
        _ => return vec![("MACHINERY/unknown-break".into(), kind.into())],
    };
    let env2 = InterpreterDataEnvelope { versions: env.versions.clone(), inner_data: broken.clone().into() };
    let bytes = match env2.serialize() {
        Ok(b) => b,
        Err(e) => return vec![("C27/envelope-does-not-encode".into(), e.to_string())],
    };
    match InterpreterDataEnvelope::try_get_versions(&bytes) {
        Ok(v) => {
            if v.interpreter_version != env.versions.interpreter_version || v.data_version != env.versions.data_version {
                out.push(("C27/versions-read-differently".into(), format!("{kind} {n}")));
            }
        }
        Err(e) => out.push(("C27/versions-unreadable-with-broken-inner-data".into(), format!("{kind} {n}: {e}"))),
    }
    match InterpreterDataEnvelope::try_from_slice(&bytes) {
        Ok(e2) => {
            if e2.inner_data.as_ref() != broken.as_slice() {
                out.push(("C27/envelope-round-trip-changes-content".into(), format!("{kind} {n}: inner bytes differ")));
            }
        }
        Err(e) => out.push(("C27/encoded-envelope-does-not-decode".into(), format!("{kind} {n}: {e}"))),
    }
    // Decoding the broken inner data and running the interpreter on it happen in an isolated worker process:
    // a corrupted archive may deserialize into values that are not memory safe to touch (see DESIGN.md, C01).
    let Some(v) = victim("B-merges-A") else { return out };
    let isolate = crate::worker::inner_data_validates(&bytes);
    let inner_ok = match w.ask(&json!({"op": "decode", "isolate": isolate, "data": crate::worker::hex(&bytes)})) {
        Answer::Ok(o) => o["inner"].as_bool().unwrap_or(false),
        Answer::Panic(_) | Answer::Died(_) => false, // C01's business
    };
    let part = &v.sc.cx.world.part;
    let req = json!({"op": "exec", "isolate": isolate, "air": part.script, "peer": v.sc.cx.world.peers[v.peer].name, "init_id": part.init_peer_id, "particle": part.particle_id,
        "prev": crate::worker::hex(&v.prev), "cur": crate::worker::hex(&bytes), "results": crate::worker::hex(&crate::host::encode_results(&v.results))});
    match w.ask(&req) {
        Answer::Ok(o) => {
            if !inner_ok {
                if o["ret_code"].as_i64() != Some(codes::DATA_DE) {
                    out.push(("C27/broken-inner-data-not-reported-as-data-error".into(), format!("{kind} {n}: ret_code {} {}", o["ret_code"], o["error_message"].as_str().unwrap_or("").chars().take(200).collect::<String>())));
                }
                if o["data_eq_prev"].as_bool() != Some(true) {
                    out.push(("C27/broken-current-data-changes-previous-data".into(), format!("{kind} {n}")));
                }
            }
        }
        // panics and crashes on corrupted data are C01's subject, not this property's
        Answer::Panic(_) | Answer::Died(_) => {}
    }
    out
}

fn tetra(i: usize) -> SecurityTetraplet {
    SecurityTetraplet::new(format!("peer{i}"), if i % 2 == 0 { "srv" } else { "" }, format!("fn{i}"), if i % 3 == 0 { ".$.a.[0]" } else { "" })
}

/// One call-request map described as JSON: [{id, service, function, args: [..], tets: [[i,..],..]}]
fn build_requests(desc: &Value) -> CallRequests {
    let mut m: CallRequests = HashMap::new();
    for e in desc.as_array().into_iter().flatten() {
        let args: Vec<JValue> = e["args"].as_array().map(|a| a.iter().map(JValue::from).collect()).unwrap_or_default();
        let tets: Vec<Vec<Rc<SecurityTetraplet>>> = e["tets"].as_array().map(|a| a.iter().map(|l| l.as_array().map(|x| x.iter().map(|i| Rc::new(tetra(i.as_u64().unwrap_or(0) as usize))).collect()).unwrap_or_default()).collect()).unwrap_or_default();
        let p = CallRequestParams::new(
            e["service"].as_str().unwrap_or("").to_string(),
            e["function"].as_str().unwrap_or("").to_string(),
            CallArgumentsRepr.serialize(&args).expect("args serialize"),
            TetrapletsRepr.serialize(&tets).expect("tetraplets serialize"),
        );
        m.insert(e["id"].as_u64().unwrap_or(0) as u32, p);
    }
    m
}

pub fn c27_requests(desc: &Value) -> Found {
    let mut out: Found = vec![];
    let m = build_requests(desc);
    let bytes = match CallRequestsRepr.serialize(&m) {
        Ok(b) => b,
        Err(e) => return vec![("C27/call-requests-do-not-encode".into(), e.to_string())],
    };
    // decoder 1: air-interpreter-interface
    match CallRequestsRepr.deserialize(&bytes) {
        Ok(back) => {
            let back: CallRequests = back;
            if back != m {
                out.push(("C27/call-requests-round-trip-changes-content".into(), format!("{desc}")));
            }
            for (id, p) in &back {
                let want = desc.as_array().and_then(|a| a.iter().find(|e| e["id"].as_u64() == Some(*id as u64)));
                let args: Result<Vec<Value>, _> = CallArgumentsRepr.deserialize(&p.arguments);
                match (args, want) {
                    (Ok(a), Some(w)) => {
                        let wa = w["args"].as_array().cloned().unwrap_or_default();
                        if a != wa || a.iter().map(|x| x.to_string()).collect::<Vec<_>>() != wa.iter().map(|x| x.to_string()).collect::<Vec<_>>() {
                            out.push(("C27/call-arguments-round-trip-changes-content".into(), format!("id {id}: {:?} vs {:?}", a, wa)));
                        }
                    }
                    (Err(e), _) => out.push(("C27/call-arguments-do-not-decode".into(), e.to_string())),
                    _ => out.push(("C27/call-requests-round-trip-changes-content".into(), format!("unexpected id {id}"))),
                }
                let tets: Result<Vec<Vec<SecurityTetraplet>>, _> = TetrapletsRepr.deserialize(&p.tetraplets);
                match (tets, want) {
                    (Ok(t), Some(w)) => {
                        let wt: Vec<Vec<SecurityTetraplet>> = w["tets"].as_array().map(|a| a.iter().map(|l| l.as_array().map(|x| x.iter().map(|i| tetra(i.as_u64().unwrap_or(0) as usize)).collect()).unwrap_or_default()).collect()).unwrap_or_default();
                        if t != wt {
                            out.push(("C27/tetraplets-round-trip-changes-content".into(), format!("id {id}")));
                        }
                    }
                    (Err(e), _) => out.push(("C27/tetraplets-do-not-decode".into(), e.to_string())),
                    _ => {}
                }
            }
        }
        Err(e) => out.push(("C27/call-requests-do-not-decode".into(), e.to_string())),
    }
    // decoder 2: avm-interface (what a host uses)
    let outcome = InterpreterOutcome::new(0, String::new(), vec![], vec![], bytes.clone(), Default::default());
    match avm_interface::raw_outcome::RawAVMOutcome::from_interpreter_outcome(outcome) {
        Ok(raw) => {
            let want_ids: BTreeSet<u32> = m.keys().cloned().collect();
            let got_ids: BTreeSet<u32> = raw.call_requests.keys().cloned().collect();
            if want_ids != got_ids {
                out.push(("C27/host-decoder-sees-other-requests".into(), format!("{want_ids:?} vs {got_ids:?}")));
            }
            for e in desc.as_array().into_iter().flatten() {
                let id = e["id"].as_u64().unwrap_or(0) as u32;
                if let Some(p) = raw.call_requests.get(&id) {
                    let wa = e["args"].as_array().cloned().unwrap_or_default();
                    let ga: Vec<Value> = p.arguments.iter().map(|x| serde_json::to_value(x).unwrap_or(Value::Null)).collect();
                    if p.service_id != e["service"].as_str().unwrap_or("") || p.function_name != e["function"].as_str().unwrap_or("") || ga != wa || ga.iter().map(|x| x.to_string()).collect::<Vec<_>>() != wa.iter().map(|x| x.to_string()).collect::<Vec<_>>() {
                        out.push(("C27/host-decoder-round-trip-changes-content".into(), format!("id {id}: {ga:?} vs {wa:?}")));
                    }
                    let wt: Vec<Vec<SecurityTetraplet>> = e["tets"].as_array().map(|a| a.iter().map(|l| l.as_array().map(|x| x.iter().map(|i| tetra(i.as_u64().unwrap_or(0) as usize)).collect()).unwrap_or_default()).collect()).unwrap_or_default();
                    if p.tetraplets != wt {
                        out.push(("C27/host-decoder-round-trip-changes-content".into(), format!("id {id}: tetraplets")));
                    }
                }
            }
        }
        Err(e) => out.push(("C27/host-decoder-rejects-honest-requests".into(), e.to_string())),
    }
    out
}

fn build_results(desc: &Value) -> CallResults {
    desc.as_array().into_iter().flatten().map(|e| (e["id"].as_u64().unwrap_or(0).to_string(), CallServiceResult { ret_code: e["ret_code"].as_i64().unwrap_or(0) as i32, result: e["result"].as_str().unwrap_or("").to_string() })).collect()
}

pub fn c27_results(desc: &Value) -> Found {
    let mut out: Found = vec![];
    let m = build_results(desc);
    let bytes = match CallResultsRepr.serialize(&m) {
        Ok(b) => b,
        Err(e) => return vec![("C27/call-results-do-not-encode".into(), e.to_string())],
    };
    match CallResultsRepr.deserialize(&bytes) {
        Ok(back) => {
            let back: CallResults = back;
            let same = back.len() == m.len() && m.iter().all(|(k, v)| back.get(k).map(|b| b.ret_code == v.ret_code && b.result == v.result).unwrap_or(false));
            if !same {
                out.push(("C27/call-results-round-trip-changes-content".into(), format!("{desc}")));
            }
        }
        Err(e) => out.push(("C27/call-results-do-not-decode".into(), e.to_string())),
    }
    // the host-side encoder (avm-interface) must produce the same map
    let host: avm_interface::CallResults = desc
        .as_array()
        .into_iter()
        .flatten()
        .filter_map(|e| {
            let v: Value = serde_json::from_str(e["result"].as_str().unwrap_or("")).ok()?;
            Some((e["id"].as_u64().unwrap_or(0) as u32, avm_interface::CallServiceResult { ret_code: e["ret_code"].as_i64().unwrap_or(0) as i32, result: v }))
        })
        .collect();
    if host.len() == m.len() {
        let raw = avm_interface::into_raw_result(host);
        for (k, v) in &raw {
            let w = &m[k];
            let same = v.ret_code == w.ret_code && serde_json::from_str::<Value>(&v.result).ok() == serde_json::from_str::<Value>(&w.result).ok();
            if !same {
                out.push(("C27/host-encoder-changes-result".into(), format!("id {k}: {} vs {}", v.result, w.result)));
            }
        }
    }
    out
}

fn varint(mut x: u64) -> Vec<u8> {
    let mut out = vec![];
    loop {
        let b = (x & 0x7f) as u8;
        x >>= 7;
        if x == 0 {
            out.push(b);
            return out;
        }
        out.push(b | 0x80);
    }
}

/// (name, prefix bytes, must be refused)
fn codec_prefixes() -> Vec<(String, Vec<u8>, Option<bool>)> {
    let mut v: Vec<(String, Vec<u8>, Option<bool>)> = vec![];
    v.push(("msgpack-0x0201".into(), varint(0x0201), Some(false)));
    for c in [0x00u64, 0x01, 0x51, 0x55, 0x70, 0x71, 0x0129, 0x0200, 0x0202, 0x0101, 0x0281, 0x01, 0x81, 0x4201, 0x10201, 0xffffffff] {
        v.push((format!("codec-{c:#x}"), varint(c), Some(true)));
    }
    // longer varints that merely begin like the MessagePack tag, and every single-bit flip of the two tag bytes
    for c in [0x200201u64, 0x800201, 0x10000201, 0x4000201] {
        v.push((format!("codec-{c:#x}"), varint(c), Some(true)));
    }
    let good = varint(0x0201);
    for byte in 0..good.len() {
        for bit in 0..8 {
            let mut p = good.clone();
            p[byte] ^= 1 << bit;
            v.push((format!("tag-byte-{byte}-bit-{bit}-flipped"), p, Some(true)));
        }
    }
    // the same number written non-minimally, or beyond u32: not another codec by the statement's wording - observed only
    v.push(("non-minimal-0x0201".into(), vec![0x81, 0x84, 0x80, 0x00], None));
    v.push(("overlong-varint".into(), vec![0x81, 0x84, 0x80, 0x80, 0x80, 0x80, 0x00], None));
    v.push(("truncated-varint".into(), vec![0x81], Some(true)));
    v.push(("empty".into(), vec![], Some(true)));
    v
}

/// kind: "requests" | "results"; body: msgpack body of an honest map; prefix replaced.
pub fn c27_codec(kind: &str, desc: &Value, pname: &str) -> Found {
    let mut out: Found = vec![];
    let honest: Vec<u8> = if kind == "requests" { CallRequestsRepr.serialize(&build_requests(desc)).map(|b| b.to_vec()).unwrap_or_default() } else { CallResultsRepr.serialize(&build_results(desc)).map(|b| b.to_vec()).unwrap_or_default() };
    let good = varint(0x0201);
    if !honest.starts_with(&good) {
        return vec![("C27/honest-payload-not-tagged-msgpack".into(), hex(&honest[..honest.len().min(4)]))];
    }
    let body = &honest[good.len()..];
    let Some((_, prefix, refuse)) = codec_prefixes().into_iter().find(|p| p.0 == pname) else {
        return vec![("MACHINERY/unknown-prefix".into(), pname.into())];
    };
    let mut bodies: Vec<(&str, Vec<u8>)> = vec![("msgpack-body", body.to_vec())];
    // the same map as JSON text under each tag (a reader that trusts the tag, or ignores it, misreads one of them)
    if kind == "results" {
        bodies.push(("json-body", serde_json::to_vec(&build_results(desc)).unwrap()));
    } else {
        bodies.push(("json-body", serde_json::to_vec(&build_requests(desc)).unwrap_or_default()));
    }
    for (bname, b) in bodies {
        let mut payload = prefix.clone();
        payload.extend_from_slice(&b);
        let must_refuse = match (refuse, bname) {
            (Some(false), "msgpack-body") => Some(false),
            (Some(false), _) => Some(true), // JSON text under the msgpack tag
            (Some(true), _) => Some(true),
            (None, _) => None,
        };
        let accepted: bool = if kind == "requests" {
            let r: Result<CallRequests, _> = CallRequestsRepr.deserialize(&payload);
            let host = avm_interface::raw_outcome::RawAVMOutcome::from_interpreter_outcome(InterpreterOutcome::new(0, String::new(), vec![], vec![], payload.clone().into(), Default::default()));
            if r.is_ok() != host.is_ok() {
                out.push(("C27/the-two-request-decoders-disagree".into(), format!("{pname} {bname}: interface {} host {}", r.is_ok(), host.is_ok())));
            }
            r.is_ok()
        } else {
            let r: Result<CallResults, _> = CallResultsRepr.deserialize(&payload);
            // and through the interpreter: call results under another codec are a preparation error
            if let Some(v) = victim("A-results-only") {
                let o = crate::host::run_raw(&v.sc.cx.world.part, &v.sc.cx.world.peers[v.peer], &v.prev, &[], payload.clone(), &Limits::default());
                match o {
                    Ok(o) => {
                        if r.is_err() && (o.ret_code != codes::CALL_RESULTS_DE || o.data != v.prev) {
                            out.push(("C27/undecodable-call-results-not-refused-by-the-interpreter".into(), format!("{pname} {bname}: ret_code {}", o.ret_code)));
                        }
                        if r.is_ok() && o.ret_code == codes::CALL_RESULTS_DE {
                            out.push(("C27/decodable-call-results-refused-by-the-interpreter".into(), format!("{pname} {bname}")));
                        }
                    }
                    Err(p) => out.push(("C27/panic".into(), format!("{pname} {bname}: {p}"))),
                }
            }
            r.is_ok()
        };
        match must_refuse {
            Some(true) if accepted => out.push((format!("C27/payload-under-another-codec-accepted/{bname}"), format!("{kind} tagged {pname} ({}) with {bname} decodes", hex(&prefix)))),
            Some(false) if !accepted => out.push(("C27/msgpack-payload-refused".into(), format!("{kind} {pname}"))),
            _ => {}
        }
    }
    out
}

fn request_descs(tier: Tier) -> Vec<Value> {
    let uni = crate::e2::universe(Tier::Quick);
    let vals: Vec<&Value> = uni.iter().step_by(if tier == Tier::Quick { 3 } else { 1 }).collect();
    let mut out = vec![json!([])];
    for (i, v) in vals.iter().enumerate() {
        out.push(json!([{"id": (i as u32) % 5, "service": "s", "function": format!("f{i}"), "args": [v], "tets": [[i % 7]]}]));
    }
    for (i, w) in vals.windows(2).enumerate().step_by(2) {
        out.push(json!([{"id": 1, "service": "", "function": "é\"", "args": [w[0], w[1]], "tets": [[0, 1], []]}, {"id": u32::MAX, "service": "srv", "function": "f", "args": [], "tets": []}]));
        if i % 5 == 0 {
            out.push(json!([{"id": 0, "service": "a", "function": "b", "args": [[w[0]], {"k": w[1]}], "tets": [[2], [3]]}, {"id": 7, "service": "a", "function": "b", "args": [w[1]], "tets": [[4]]}, {"id": 4294967294u32, "service": "x", "function": "y", "args": [w[0]], "tets": [[5, 6, 0]]}]));
        }
    }
    out
}

fn result_descs(tier: Tier) -> Vec<Value> {
    let uni = crate::e2::universe(Tier::Quick);
    let vals: Vec<&Value> = uni.iter().step_by(if tier == Tier::Quick { 3 } else { 1 }).collect();
    let mut out = vec![json!([])];
    for (i, v) in vals.iter().enumerate() {
        out.push(json!([{"id": i % 4, "ret_code": 0, "result": v.to_string()}]));
    }
    for (i, w) in vals.windows(2).enumerate().step_by(3) {
        out.push(json!([{"id": 1, "ret_code": 0, "result": w[0].to_string()}, {"id": 2, "ret_code": 1, "result": w[1].to_string()}, {"id": u32::MAX, "ret_code": i32::MIN, "result": "not json {"}]));
        let _ = i;
    }
    out
}

pub fn c27_case(case: &Value) -> Found {
    match case["kind"].as_str().unwrap_or("") {
        "data" => c27_data(&unhex(case["blob"].as_str().unwrap_or(""))),
        "broken-inner" => c27_broken_inner(&mut Worker::new(), &unhex(case["blob"].as_str().unwrap_or("")), case["break"].as_str().unwrap_or(""), case["n"].as_u64().unwrap_or(0) as usize),
        "requests" => c27_requests(&case["desc"]),
        "results" => c27_results(&case["desc"]),
        "codec" => c27_codec(case["what"].as_str().unwrap_or(""), &case["desc"], case["prefix"].as_str().unwrap_or("")),
        _ => vec![("MACHINERY/unknown-case".into(), case.to_string())],
    }
}

pub fn check_c27(tier: Tier) -> Report {
    let mut rep = e2_report(
        "C27",
        &[
            "honest data blobs are harvested from explorations of STREAM/MAP/ERR scripts (every distinct blob by decoded content)",
            "broken inner data is placed inside a well-formed envelope (the statement speaks about unreadable inner data, not about a cut envelope)",
            "a non-minimal or over-long varint spelling of the MessagePack codec is observed but not judged",
        ],
    );
    let mut evals = 0u64;
    let mut nontrivial = 0u64;
    let mut counts: BTreeMap<String, u64> = BTreeMap::new();
    let mut samples = vec![];
    let blobs = harvest(tier);
    for (name, b) in &blobs {
        let case = json!({"property": "C27", "kind": "data", "blob": hex(b), "from": name});
        evals += 1;
        *counts.entry("data-blobs".into()).or_insert(0) += 1;
        if data::decode(b).map(|d| d.trace.len() >= 4).unwrap_or(false) {
            nontrivial += 1;
        }
        rep.violations.extend(to_violations(&case, c27_data(b)));
    }
    let mut w = Worker::new();
    // broken inner data: every truncation length and a flip at every position of a few blobs, coarser on the rest
    let full = if tier == Tier::Quick { 2 } else { 8 };
    for (i, (name, b)) in blobs.iter().enumerate().step_by((blobs.len() / 24).max(1)) {
        let inner_len = InterpreterDataEnvelope::try_from_slice(b).map(|e| e.inner_data.len()).unwrap_or(0);
        let step = if i / (blobs.len() / 24).max(1) < full { 1 } else { 37 };
        for n in (0..inner_len).step_by(step) {
            for kind in ["truncate", "flip"] {
                let case = json!({"property": "C27", "kind": "broken-inner", "blob": hex(b), "break": kind, "n": n, "from": name});
                evals += 1;
                nontrivial += 1;
                *counts.entry(format!("broken-inner-{kind}")).or_insert(0) += 1;
                rep.violations.extend(to_violations(&case, c27_broken_inner(&mut w, b, kind, n)));
            }
        }
        for (kind, n) in [("zero-tail", 1usize), ("zero-tail", 16), ("zero-tail", inner_len / 2), ("garbage", 0), ("garbage", 1), ("garbage", 64), ("garbage", inner_len)] {
            let case = json!({"property": "C27", "kind": "broken-inner", "blob": hex(b), "break": kind, "n": n, "from": name});
            evals += 1;
            *counts.entry(format!("broken-inner-{kind}")).or_insert(0) += 1;
            rep.violations.extend(to_violations(&case, c27_broken_inner(&mut w, b, kind, n)));
        }
    }
    let rd = request_descs(tier);
    for d in &rd {
        let case = json!({"property": "C27", "kind": "requests", "desc": d});
        evals += 1;
        *counts.entry("request-maps".into()).or_insert(0) += 1;
        if d.as_array().map(|a| a.len() >= 2).unwrap_or(false) {
            nontrivial += 1;
        }
        if samples.len() < 3 && evals % 50 == 0 {
            samples.push(case.clone());
        }
        rep.violations.extend(to_violations(&case, c27_requests(d)));
    }
    let sd = result_descs(tier);
    for d in &sd {
        let case = json!({"property": "C27", "kind": "results", "desc": d});
        evals += 1;
        *counts.entry("result-maps".into()).or_insert(0) += 1;
        if d.as_array().map(|a| a.len() >= 2).unwrap_or(false) {
            nontrivial += 1;
        }
        rep.violations.extend(to_violations(&case, c27_results(d)));
    }
    let mut refused = 0u64;
    for (what, descs) in [("requests", &rd), ("results", &sd)] {
        for d in descs.iter().step_by(if tier == Tier::Quick { 29 } else { 3 }) {
            for (pname, _, refuse) in codec_prefixes() {
                let case = json!({"property": "C27", "kind": "codec", "what": what, "desc": d, "prefix": pname});
                evals += 2;
                if refuse == Some(true) {
                    nontrivial += 1;
                    refused += 1;
                }
                *counts.entry(format!("codec-{what}")).or_insert(0) += 1;
                if samples.len() < 6 && pname == "codec-0x200" {
                    samples.push(case.clone());
                }
                rep.violations.extend(to_violations(&case, c27_codec(what, d, &pname)));
            }
        }
    }
    if refused == 0 || blobs.is_empty() {
        rep.machinery_errors.push("vacuous: no blob harvested or no foreign codec tried".into());
    }
    samples.push(json!({"kind": "data", "from": blobs.first().map(|b| b.0.clone()), "bytes": blobs.first().map(|b| b.1.len())}));
    rep.cov("evaluations", json!(evals));
    rep.cov("distinct_nontrivial", json!(nontrivial));
    rep.cov("cases_by_kind", json!(counts));
    rep.cov("honest_blobs", json!(blobs.len()));
    rep.cov("codec_prefixes", json!(codec_prefixes().iter().map(|p| json!({"name": p.0, "bytes": hex(&p.1), "must_be_refused": p.2})).collect::<Vec<_>>()));
    rep.cov("rule", json!("every distinct honest data blob of the harvested explorations: typed data -> bytes -> typed data, envelope constructor -> bytes -> decode, envelope re-serialization, versions read alone, all compared on decoded content; envelopes around broken inner data (every truncation length and a byte flip at every position of the first blobs, every 37th on the others, zeroed tails, garbage): versions still readable and equal, envelope still decodes to the same inner bytes, the interpreter answers with the data-deserialization code and returns the previous data; generated call-request maps (0-3 entries, arguments from the JSON universe of C25/C26, tetraplet lists) through both decoders (air-interpreter-interface and avm-interface) and call-result maps through decoder and host encoder: equal content, numbers and strings bit-exact; each honest payload re-tagged with 16 other codecs, a truncated and an empty prefix, each with the MessagePack body and with the same map as JSON text: refused by both decoders and (results) by the interpreter with the call-results error and previous data; non-trivial = blobs with >= 4 trace entries, every broken-inner truncate/flip case, maps with >= 2 entries, every foreign-codec case"));
    rep.cov("samples", json!(samples));
    rep
}
