//! The harness's own script tree (independent of the parser's AST) and its printer to AIR text.

use std::collections::BTreeMap;
use std::fmt::Write;

#[derive(Clone, Debug, PartialEq, Eq, Hash, serde::Serialize, serde::Deserialize)]
pub enum Arg {
    Str(String),
    Num(i64),
    Bool(bool),
    InitPeer,
    Timestamp,
    Ttl,
    EmptyArr,
    LastError,
    /// `:error:` with optional lens path (text after `.$`)
    Error(Option<String>),
    LastErrorLens(String),
    Var(String),
    /// scalar with lens: `x.$.<path>` ; path stored without the leading ".$"
    Lens(String, String),
    Stream(String),
    StreamMap(String),
    Canon(String),
    CanonLens(String, String),
    CanonMap(String),
    CanonMapLens(String, String),
    Raw(String),
}

#[derive(Clone, Debug, PartialEq, Eq, Hash, serde::Serialize, serde::Deserialize)]
pub enum PeerRef {
    /// peer by *name*; the printer substitutes the peer id
    Name(String),
    InitPeer,
    Var(String),
    Lens(String, String),
    Raw(String),
}

#[derive(Clone, Debug, PartialEq, Eq, Hash, serde::Serialize, serde::Deserialize)]
pub enum Out {
    None,
    Scalar(String),
    Stream(String),
}

#[derive(Clone, Debug, PartialEq, Eq, Hash, serde::Serialize, serde::Deserialize)]
pub enum FailArg {
    Lit(i64, String),
    Arg(Arg),
}

#[derive(Clone, Debug, PartialEq, Eq, Hash, serde::Serialize, serde::Deserialize)]
pub enum I {
    Call { peer: PeerRef, svc: String, func: String, args: Vec<Arg>, out: Out },
    Seq(Box<I>, Box<I>),
    Par(Box<I>, Box<I>),
    Xor(Box<I>, Box<I>),
    Fold { iterable: Arg, iter: String, body: Box<I>, last: Option<Box<I>> },
    Next(String),
    /// variable text including sigil, e.g. `x`, `$s`, `#c`, `%m`
    New(String, Box<I>),
    Ap { src: Arg, dst: String },
    ApMap { key: Arg, value: Arg, map: String },
    Canon { peer: PeerRef, src: String, dst: String },
    Match(Arg, Arg, Box<I>),
    Mismatch(Arg, Arg, Box<I>),
    Fail(FailArg),
    Null,
    Never,
}

pub fn seq(a: I, b: I) -> I {
    I::Seq(Box::new(a), Box::new(b))
}
pub fn par(a: I, b: I) -> I {
    I::Par(Box::new(a), Box::new(b))
}
pub fn xor(a: I, b: I) -> I {
    I::Xor(Box::new(a), Box::new(b))
}
pub fn seqs(mut v: Vec<I>) -> I {
    let mut acc = v.pop().expect("non-empty");
    while let Some(x) = v.pop() {
        acc = seq(x, acc);
    }
    acc
}
pub fn pars(mut v: Vec<I>) -> I {
    let mut acc = v.pop().expect("non-empty");
    while let Some(x) = v.pop() {
        acc = par(x, acc);
    }
    acc
}
pub fn call(peer: &str, func: &str, args: Vec<Arg>, out: Out) -> I {
    I::Call { peer: PeerRef::Name(peer.into()), svc: "s".into(), func: func.into(), args, out }
}
pub fn var(x: &str) -> Arg {
    Arg::Var(x.into())
}
pub fn sc(x: &str) -> Out {
    Out::Scalar(x.into())
}
pub fn st(x: &str) -> Out {
    Out::Stream(x.into())
}
pub fn fold(iterable: Arg, iter: &str, body: I) -> I {
    I::Fold { iterable, iter: iter.into(), body: Box::new(body), last: None }
}
pub fn new(v: &str, body: I) -> I {
    I::New(v.into(), Box::new(body))
}
pub fn canon(peer: &str, src: &str, dst: &str) -> I {
    I::Canon { peer: PeerRef::Name(peer.into()), src: src.into(), dst: dst.into() }
}

pub type PeerIds = BTreeMap<String, String>;

pub fn quote(s: &str) -> String {
    format!("\"{s}\"")
}

pub fn print_arg(a: &Arg) -> String {
    match a {
        Arg::Str(s) => quote(s),
        Arg::Num(n) => n.to_string(),
        Arg::Bool(b) => b.to_string(),
        Arg::InitPeer => "%init_peer_id%".into(),
        Arg::Timestamp => "%timestamp%".into(),
        Arg::Ttl => "%ttl%".into(),
        Arg::EmptyArr => "[]".into(),
        Arg::LastError => "%last_error%".into(),
        Arg::LastErrorLens(p) => format!("%last_error%.${p}"),
        Arg::Error(None) => ":error:".into(),
        Arg::Error(Some(p)) => format!(":error:.${p}"),
        Arg::Var(x) => x.clone(),
        Arg::Lens(x, p) => format!("{x}.${p}"),
        Arg::Stream(s) => s.clone(),
        Arg::StreamMap(s) => s.clone(),
        Arg::Canon(s) => s.clone(),
        Arg::CanonLens(s, p) => format!("{s}.${p}"),
        Arg::CanonMap(s) => s.clone(),
        Arg::CanonMapLens(s, p) => format!("{s}.${p}"),
        Arg::Raw(s) => s.clone(),
    }
}

pub fn print_peer(p: &PeerRef, ids: &PeerIds) -> String {
    match p {
        PeerRef::Name(n) => quote(ids.get(n).map(|s| s.as_str()).unwrap_or(n.as_str())),
        PeerRef::InitPeer => "%init_peer_id%".into(),
        PeerRef::Var(x) => x.clone(),
        PeerRef::Lens(x, p) => format!("{x}.${p}"),
        PeerRef::Raw(s) => s.clone(),
    }
}

pub fn print(i: &I, ids: &PeerIds) -> String {
    let mut s = String::new();
    pr(i, ids, &mut s);
    s
}

fn pr(i: &I, ids: &PeerIds, s: &mut String) {
    match i {
        I::Call { peer, svc, func, args, out } => {
            let args: Vec<String> = args.iter().map(print_arg).collect();
            write!(s, "(call {} ({} {}) [{}]", print_peer(peer, ids), quote(svc), quote(func), args.join(" ")).unwrap();
            match out {
                Out::None => {}
                Out::Scalar(x) | Out::Stream(x) => write!(s, " {x}").unwrap(),
            }
            s.push(')');
        }
        I::Seq(a, b) | I::Par(a, b) | I::Xor(a, b) => {
            let kw = match i {
                I::Seq(..) => "seq",
                I::Par(..) => "par",
                _ => "xor",
            };
            write!(s, "({kw} ").unwrap();
            pr(a, ids, s);
            s.push(' ');
            pr(b, ids, s);
            s.push(')');
        }
        I::Fold { iterable, iter, body, last } => {
            write!(s, "(fold {} {iter} ", print_arg(iterable)).unwrap();
            pr(body, ids, s);
            if let Some(l) = last {
                s.push(' ');
                pr(l, ids, s);
            }
            s.push(')');
        }
        I::Next(x) => write!(s, "(next {x})").unwrap(),
        I::New(v, body) => {
            write!(s, "(new {v} ").unwrap();
            pr(body, ids, s);
            s.push(')');
        }
        I::Ap { src, dst } => write!(s, "(ap {} {dst})", print_arg(src)).unwrap(),
        I::ApMap { key, value, map } => write!(s, "(ap ({} {}) {map})", print_arg(key), print_arg(value)).unwrap(),
        I::Canon { peer, src, dst } => write!(s, "(canon {} {src} {dst})", print_peer(peer, ids)).unwrap(),
        I::Match(a, b, body) | I::Mismatch(a, b, body) => {
            let kw = if matches!(i, I::Match(..)) { "match" } else { "mismatch" };
            write!(s, "({kw} {} {} ", print_arg(a), print_arg(b)).unwrap();
            pr(body, ids, s);
            s.push(')');
        }
        I::Fail(FailArg::Lit(c, m)) => write!(s, "(fail {c} {})", quote(m)).unwrap(),
        I::Fail(FailArg::Arg(a)) => write!(s, "(fail {})", print_arg(a)).unwrap(),
        I::Null => s.push_str("(null)"),
        I::Never => s.push_str("(never)"),
    }
}

/// All `Call` leaves in textual order.
pub fn calls(i: &I) -> Vec<&I> {
    let mut v = vec![];
    walk(i, &mut |x| {
        if matches!(x, I::Call { .. }) {
            v.push(x)
        }
    });
    v
}

pub fn walk<'a>(i: &'a I, f: &mut dyn FnMut(&'a I)) {
    f(i);
    match i {
        I::Seq(a, b) | I::Par(a, b) | I::Xor(a, b) => {
            walk(a, f);
            walk(b, f);
        }
        I::Fold { body, last, .. } => {
            walk(body, f);
            if let Some(l) = last {
                walk(l, f);
            }
        }
        I::New(_, b) | I::Match(_, _, b) | I::Mismatch(_, _, b) => walk(b, f),
        _ => {}
    }
}

/// A generated script with its provenance.
#[derive(Clone, Debug, serde::Serialize, serde::Deserialize)]
pub struct Script {
    pub family: String,
    pub name: String,
    pub ast: I,
    /// peer names that participate (the first is the init peer)
    pub peers: Vec<String>,
}

fn arg_vars(a: &Arg, out: &mut Vec<String>) {
    match a {
        Arg::Var(x) | Arg::Stream(x) | Arg::StreamMap(x) | Arg::Canon(x) | Arg::CanonMap(x) => out.push(x.clone()),
        Arg::Lens(x, p) | Arg::CanonLens(x, p) | Arg::CanonMapLens(x, p) => {
            out.push(x.clone());
            // scalar accessors inside the path: .[name]
            for seg in p.split('.') {
                if let Some(inner) = seg.strip_prefix('[').and_then(|s| s.strip_suffix(']')) {
                    if inner.parse::<u64>().is_err() {
                        out.push(inner.to_string());
                    }
                }
            }
        }
        _ => {}
    }
}

/// (defined variables, used variables) of one instruction node itself (not of its children).
pub fn defs_uses(i: &I) -> (Vec<String>, Vec<String>) {
    let mut d = vec![];
    let mut u = vec![];
    match i {
        I::Call { peer, args, out, .. } => {
            match peer {
                PeerRef::Var(x) | PeerRef::Lens(x, _) => u.push(x.clone()),
                _ => {}
            }
            for a in args {
                arg_vars(a, &mut u);
            }
            match out {
                Out::Scalar(x) | Out::Stream(x) => d.push(x.clone()),
                Out::None => {}
            }
        }
        I::Fold { iterable, .. } => arg_vars(iterable, &mut u),
        I::Ap { src, dst } => {
            arg_vars(src, &mut u);
            d.push(dst.clone());
        }
        I::ApMap { key, value, map } => {
            arg_vars(key, &mut u);
            arg_vars(value, &mut u);
            d.push(map.clone());
        }
        I::Canon { peer, src, dst } => {
            if let PeerRef::Var(x) | PeerRef::Lens(x, _) = peer {
                u.push(x.clone());
            }
            u.push(src.clone());
            d.push(dst.clone());
        }
        I::Match(a, b, _) | I::Mismatch(a, b, _) => {
            arg_vars(a, &mut u);
            arg_vars(b, &mut u);
        }
        I::Fail(FailArg::Arg(a)) => arg_vars(a, &mut u),
        _ => {}
    }
    (d, u)
}

fn all_defs(i: &I) -> Vec<String> {
    let mut v = vec![];
    walk(i, &mut |x| v.extend(defs_uses(x).0));
    v
}
fn all_uses(i: &I) -> Vec<String> {
    let mut v = vec![];
    walk(i, &mut |x| v.extend(defs_uses(x).1));
    v
}

/// True if some scalar is defined in one branch of a `par` and used in the other branch of the same `par`.
pub fn cross_par_dependency(ast: &I) -> bool {
    let mut found = false;
    walk(ast, &mut |x| {
        if let I::Par(a, b) = x {
            let (da, db) = (all_defs(a), all_defs(b));
            let (ua, ub) = (all_uses(a), all_uses(b));
            let scalar = |n: &String| !n.starts_with('$') && !n.starts_with('%');
            if da.iter().any(|d| scalar(d) && ub.contains(d)) || db.iter().any(|d| scalar(d) && ua.contains(d)) {
                found = true;
            }
        }
    });
    found
}

/// True if some scalar is defined inside a branch of a `par` and used outside that branch (in the sibling
/// branch or after the par): the par can complete, and execution can move on, before the definition ran.
pub fn par_escaping_dependency(ast: &I) -> bool {
    fn go(i: &I, root: &I, found: &mut bool) {
        if let I::Par(a, b) = i {
            for (inside, _other) in [(a, b), (b, a)] {
                let defs = all_defs(inside);
                let inner_uses = all_uses(inside);
                let _ = inner_uses;
                // uses anywhere in the script that are not inside this branch
                let mut outside_uses = vec![];
                collect_uses_outside(root, inside, &mut outside_uses);
                if defs.iter().any(|d| !d.starts_with('$') && !d.starts_with('%') && outside_uses.contains(d)) {
                    *found = true;
                }
            }
        }
        match i {
            I::Seq(a, b) | I::Par(a, b) | I::Xor(a, b) => {
                go(a, root, found);
                go(b, root, found);
            }
            I::Fold { body, last, .. } => {
                go(body, root, found);
                if let Some(l) = last {
                    go(l, root, found);
                }
            }
            I::New(_, b) | I::Match(_, _, b) | I::Mismatch(_, _, b) => go(b, root, found),
            _ => {}
        }
    }
    fn collect_uses_outside(i: &I, skip: &I, out: &mut Vec<String>) {
        if std::ptr::eq(i, skip) {
            return;
        }
        out.extend(defs_uses(i).1);
        match i {
            I::Seq(a, b) | I::Par(a, b) | I::Xor(a, b) => {
                collect_uses_outside(a, skip, out);
                collect_uses_outside(b, skip, out);
            }
            I::Fold { body, last, .. } => {
                collect_uses_outside(body, skip, out);
                if let Some(l) = last {
                    collect_uses_outside(l, skip, out);
                }
            }
            I::New(_, b) | I::Match(_, _, b) | I::Mismatch(_, _, b) => collect_uses_outside(b, skip, out),
            _ => {}
        }
    }
    let mut found = false;
    go(ast, ast, &mut found);
    found
}
