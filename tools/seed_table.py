#!/usr/bin/env python3
"""Merges the results of tools/mutloop.sh (/tmp/mutloop.log) and tools/verify_*.sh into seeded/<id>/meta.json
(field detected_by) and prints the markdown table used in DESIGN.md 11.7."""
import json, os, re, sys, glob
V = os.path.dirname(os.path.dirname(os.path.abspath(__file__)))
log = open('/tmp/mutloop.log').read() if os.path.exists('/tmp/mutloop.log') else ''
res = {}
for line in log.splitlines():
    m = re.match(r'== (\S+) (C\d+): (.*)', line)
    if not m: continue
    seed, cid, rest = m.groups()
    sigs = re.findall(r'signature: (\S+?)\|', rest) or re.findall(r'signature: (\S+)', rest)
    verdict = sigs if ('VIOLATION' in rest and sigs) else ('VIOLATION' if 'VIOLATION' in rest else ('missed' if rest.startswith('OK') else rest[:60]))
    res.setdefault(seed, {})[cid] = verdict          # later lines (after strengthening) overwrite earlier ones
    res.setdefault(seed + '#history', {}).setdefault(cid, []).append('caught' if 'VIOLATION' in rest else 'missed')
rows = []
for d in sorted(glob.glob(f'{V}/seeded/*')):
    sid = os.path.basename(d); p = f'{d}/meta.json'
    meta = json.load(open(p)) if os.path.exists(p) else {}
    if sid in res:
        meta['detected_by'] = res[sid]
        hist = res.get(sid + '#history', {})
        first_missed = [c for c, h in hist.items() if h and h[0] == 'missed' and h[-1] == 'caught']
        if first_missed: meta['missed_before_strengthening'] = first_missed
    if sid.startswith('M-') and 'quick_checks' in meta and 'detected_by' not in meta:
        meta['detected_by'] = meta['quick_checks']
    json.dump(meta, open(p, 'w'), indent=1)
    det = meta.get('detected_by', meta.get('quick_checks', ''))
    if isinstance(det, dict):
        det = '; '.join(f"{c}: {v[0] if isinstance(v, list) else v}" for c, v in det.items())
    rows.append((sid, meta.get('property', ''), str(meta.get('confirmed', meta.get('baseline_with_patch', ''))), str(det)[:160], ','.join(meta.get('missed_before_strengthening', []))))
print('| seed | property | confirmed / baseline | detected by (quick tier) | missed before strengthening |')
print('|---|---|---|---|---|')
for r in rows: print('| ' + ' | '.join(r) + ' |')
