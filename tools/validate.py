#!/usr/bin/env python3
import json,jsonschema,sys,os
V=os.path.dirname(os.path.dirname(os.path.abspath(__file__)))
m=json.load(open(f'{V}/MANIFEST.json')); jsonschema.validate(m,json.load(open('/root/.vp/MANIFEST.schema.json')))
es=json.load(open('/root/.vp/EVIDENCE.schema.json'))
bad=0
for c in m['checks']:
    p=f"{V}/{c['evidence_file']}"
    try:
        e=json.load(open(p)); jsonschema.validate(e,es)
        assert e['level']==c['level_claimed']['category'], (e['level'], c['level_claimed']['category'])
        assert e.get('violations',0)==0, 'violations in committed evidence'
    except Exception as ex:
        bad+=1; print('BAD',c['property_id'],str(ex)[:200])
ids={json.loads(l)['id'] for l in open(f'{V}/properties.jsonl')}
claimed={c['property_id'] for c in m['checks']}; na={x['property_id'] for x in m.get('not_applicable',[])}
assert claimed|na==ids and not (claimed&na), (ids-claimed-na, claimed&na)
print('manifest ok,',len(claimed),'claimed,',len(na),'not claimed,',bad,'bad evidence files')
sys.exit(1 if bad else 0)
