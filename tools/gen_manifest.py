#!/usr/bin/env python3
"""Regenerates MANIFEST.json from the table below (single source of truth for claimed checks)."""
import json, os
V = os.path.dirname(os.path.dirname(os.path.abspath(__file__)))
props = [json.loads(l) for l in open(os.path.join(V, 'properties.jsonl'))]

E1_NOTE = ("Trusted base: the hand-written explorer (mc/src/netmc.rs) and the host model of DESIGN.md 3.2; the native "
           "build of the air crate stands in for the Wasm module; bounds: 3 peers (+observer), one particle, script families of DESIGN.md 5.")
E1_TECH = "explicit-state model checking of the implementation: breadth-first closure of the delivery/duplication/call-result schedule graph, each transition one real execute_air call"

CHECKS = {
 "C02": ("model_checking", "7 C02", "Outcome contract evaluated on every distinct run of every schedule of the STREAM, MAP and ERR families (honest histories incl. catchable and uncatchable script errors); tampered/malformed inputs are covered by the C01/C14 sweeps which apply the same contract."),
 "C03": ("model_checking", "7 C03", "DataVerify (decode, version, CID stores, every trace CID resolvable, every peer's signature) plus operational acceptance by a non-participating peer, on every data produced in every schedule of STREAM, MAP, ERR."),
 "C04": ("model_checking", "7 C04", "Every run of every schedule (reorder, duplicate, stale, partial/batched results) checked against the forbidden data-consistency codes."),
 "C07": ("model_checking", "7 C07", "Four re-delivery runs per distinct non-failing run; trace equality, no requests, no next peers."),
 "C09": ("model_checking", "7 C09", "Result multisets by content id compared on every non-failing run of every schedule."),
 "C10": ("model_checking", "7 C10", "Independent recursive-descent TraceGrammar reads every produced trace."),
 "C12": ("model_checking", "7 C12", "Generation order of content-identified stream values across every consecutive data pair of a peer in every schedule."),
 "C20": ("model_checking", "7 C20", "Every distinct run of the exploration re-executed; decoded outcomes compared."),
}

checks = []
for pid, (cat, ref, text) in CHECKS.items():
    checks.append({
        "property_id": pid,
        "quick_cmd": f"bin/check {pid} quick",
        "thorough_cmd": f"bin/check {pid} thorough",
        "evidence_file": f"evidence/{pid}.json",
        "replay_cmd_template": f"bin/check {pid} --replay {{path}}",
        "engine": "mc",
        "level_claimed": {"category": cat, "text": text, "design_ref": f"DESIGN.md section {ref}"},
        "level_note": E1_NOTE,
        "technique": E1_TECH if cat == "model_checking" else "bounded-exhaustive enumeration of a finite input/fault space against a reference model",
    })
na = [{"property_id": p['id'], "reason": "check not built yet (work in progress)"} for p in props if p['id'] not in CHECKS]
m = {
 "version": 1,
 "setup_cmd": "bin/setup",
 "hooks": {"guard": "fluencelabs_aquavm_verif", "enable": "no hooks are needed: every observation point is a public API value (outcome, decoded data, decoded call requests)",
           "baseline_off_cmd": "bin/baseline /repo", "source_commits": [], "add_only": True},
 "engines": [{"name": "mc", "path": "mc", "serves_properties": sorted(CHECKS),
              "kind_free_text": "hand-written explicit-state explorer (E1 netmc) and bounded-exhaustive enumerator (E2) in Rust, linked against the repository crates by path; the transition function is air::execute_air itself"}],
 "checks": checks,
 "not_applicable": na,
 "notes": "See DESIGN.md. known_findings.json lists genuine defects (fixed ones suppress nothing).",
}
json.dump(m, open(os.path.join(V, 'MANIFEST.json'), 'w'), indent=1)
print(f"{len(checks)} checks, {len(na)} not yet claimed")
