#!/usr/bin/env python3
"""Regenerates MANIFEST.json from the table below (single source of truth for claimed checks)."""
import json, os
V = os.path.dirname(os.path.dirname(os.path.abspath(__file__)))
props = [json.loads(l) for l in open(os.path.join(V, 'properties.jsonl'))]

E1_NOTE = ("Trusted base: the hand-written explorer (mc/src/netmc.rs) and the host model of DESIGN.md 3.2; the native "
           "build of the air crate stands in for the Wasm module; bounds: 3 peers (+observer), one particle, script families of DESIGN.md 5.")
E1_TECH = "explicit-state model checking of the implementation: breadth-first closure of the delivery/duplication/call-result schedule graph, each transition one real execute_air call"

CHECKS = {
 "C02": ("model_checking", "7 C02 and 11.5", "Outcome contract evaluated on every distinct run of every schedule of the ERR, STREAM and MAP families: honest histories with catchable errors (10000-10011) and one uncatchable script error (scalar shadowing, 20007) for which previous data, no next peers and no requests are demanded. Preparation errors, code 30000 and tampered or malformed current data do not occur in these histories and are not covered."),
 "C03": ("model_checking", "7 C03", "DataVerify (decode, version, CID stores, every trace CID resolvable, every peer's signature) plus operational acceptance by a non-participating peer, on every data produced in every schedule of STREAM, MAP, ERR."),
 "C04": ("model_checking", "7 C04", "Every run of every schedule (reorder, duplicate, stale, partial/batched results) checked against the forbidden data-consistency codes."),
 "C07": ("model_checking", "7 C07", "Four re-delivery runs per distinct non-failing run; trace equality, no requests, no next peers."),
 "C09": ("model_checking", "7 C09", "Result multisets by content id compared on every non-failing run of every schedule."),
 "C10": ("model_checking", "7 C10", "Independent recursive-descent TraceGrammar reads every produced trace."),
 "C12": ("model_checking", "7 C12", "Generation order of content-identified stream values across every consecutive data pair of a peer in every schedule."),
 "C20": ("model_checking", "7 C20", "Every distinct run of the exploration re-executed; decoded outcomes compared."),
 "C05": ("model_checking", "7 C05", "Ghost multisets of issued and answered requests carried in the explored state: at-most-once issue on every transition of every schedule, every answered result present exactly once in every later data of the peer (SEQ, STREAM, MAP families)."),
 "C06": ("model_checking", "7 C06", "Request ids against a ghost per-peer maximum on every transition; downstream argument values against the sequential reference (routing); one result under a non-pending id on every path (unknown, stale, consumed, 2^32-1) must come back as code 30000 and change nothing."),
 "C08": ("model_checking", "7 C08", "For every quiescent state and every state up to depth 3 of every schedule graph: the peers' data merged in every order and in right-nested groupings at observers and at participating peers; same results by content id, identical traces modulo request senders for stream-free scripts."),
 "C11": ("model_checking", "7 C11", "Per explored state all data of the history bind one canon result per canon site and all consumers see one value; per first canonicalization its elements equal the stream writes replayed/performed before it in that run; for scripts that fold over the canonical stream / map, the fold's visits are elements of the canonical value in every state and equal them at every quiescent state."),
 "C13": ("model_checking", "7 C13", "Local canonicalization as observation point of the stream content on every run; visit calls of every top-level stream fold counted per value, fold and peer in every state (at most once) and compared at every quiescent state with the values of the merged stream written before or inside that fold, including bounded recursive streams and a second fold that appends to the stream it iterates."),
 "C16": ("model_checking", "7 C16", "Every call request of every schedule of every SEQ-family script compared (peer, service, function, argument values) with the call multiset of an independent sequential evaluator; all graphs closed."),
 "C17": ("model_checking", "7 C17", "Tetraplets of every argument of every distinct call request in every schedule compared with the sequential reference (SEQ) or with the producer embedded in the value by the service oracle (STREAM/MAP); whole canonical values (`#%c.$.key`, scalars bound by `canon P %m x` or copied with `ap #c x`) must carry the tetraplet of the peer the canon designates."),
 "C19": ("model_checking", "7 C19", "Per run: requests only for calls addressed to the peer, next peers without self or duplicates, newly sent marks imply next peers; per quiescent state: all data merged at an observer hold no sent-but-unexecuted entry. One known finding (cross-par data dependency) is listed in known_findings.json."),
 "C25": ("exploration", "7 C25", "Finite universe of JSON values (boundary numbers, escaped and non-ASCII strings, nesting to depth 3) x a catalogue of id mutations (listed with accept/reject counts in the evidence), enumerated completely; ids compared with an independent framing, verification verdicts with the accept-iff rule of the statement."),
 "C26": ("exploration", "7 C26", "The same finite universe enumerated completely: conversion, printing, parsing, accessors, navigation and (all ordered pairs of a sub-universe) equality compared with serde_json."),
}
E2B_NOTE = ("Trusted base: the scripted honest histories of mc/src/e2b.rs (victims) driven through the same host model as the explorer; the reference rules written out in the check (semver precedence on version pieces; size > limit); "
            "the native build of the air crate stands in for the Wasm module; bounds: the version / limit grids listed in the evidence, six victim situations.")
E2C_NOTE = ("Trusted base: serde_json navigation as the reference (JsonNav, mc/src/e2c.rs); values and scalar accessors reach the interpreter as call results of a one-peer script, the lens is observed through the argument of the next call request; "
            "bounds: the finite value/path/accessor universe stated in the evidence rule (no sampling).")
E2_TECH = "bounded-exhaustive enumeration of a finite input space through the real entry point (air::execute_air), each answer compared with a reference model"
E2D_NOTE = ("Trusted base: the encoders/decoders compared are the repository's own public ones (air-interpreter-data, air-interpreter-interface, air-interpreter-sede, avm-interface); honest blobs come from explorations of the real interpreter; evaluations that decode corrupted inner data run in an isolated worker process (mc worker); "
            "bounds: the harvested blobs, break positions, generated maps and codec prefixes listed in the evidence.")
E2F_NOTE = ("Trusted base: the harness's own S-expression reader, ScopeCheck and expected rendering in mc/src/e2f.rs (no code shared with air-parser or the beautifier); "
            "bounds: the script families of DESIGN.md 5 with their single scope mutations, and all token strings up to the stated length over a 26-token alphabet.")
E18_TECH = E1_TECH + "; caught and uncaught variants of one failure compared across their explored graphs"
ADV_NOTE = ("Trusted base: the attacker toolkit (mc/src/forge.rs: JSON-tree edits of decoded data, content ids recomputed through the repository's own public functions, the attacker's result set re-signed with sign_cids), the situation harvest from explorations of the real interpreter, the isolated worker process (mc worker; address-space limit 4 GiB; a forked child per evaluation whose inner data still passes rkyv validation); "
            "bounds: the ADV scripts, the situations per script and the operator catalogue listed in the evidence; attacks needing three coordinated edits are outside the pair bound.")
ADV_TECH = "exhaustive fault enumeration: every operator of a mutation catalogue at every applicable position of every harvested honest situation (singles, and ordered pairs over a thinned catalogue), each mutant executed by the real interpreter in an isolated process"
EXTRA = {
 "C01": (ADV_NOTE, ADV_TECH + "; plus every truncation / single-byte substitution of honest envelopes and a set of name-clash and deeply nested scripts"),
 "C14": (ADV_NOTE, ADV_TECH),
 "C15": ("Trusted base: the explorer (forks are pairs of data from different branches of one explored schedule graph, all produced and signed by the real interpreter) and the harness's own multiset arithmetic over decoded traces and stores; bounds: the five FORK scripts, victim = the init peer, the state cap of the exploration.",
         "exhaustive fault enumeration over forks: every (data the victim can hold, any data of the explored graph) pair merged by the real interpreter, verdict compared with multiset arithmetic on the decoded inputs"),
 "C23": (E2F_NOTE, "bounded-exhaustive enumeration of token strings and of generated scripts with every single scope mutation, parser verdict compared with an independent scope checker"),
 "C21": (E2B_NOTE, E2_TECH), "C22": (E2B_NOTE, E2_TECH), "C24": (E2C_NOTE, E2_TECH),
 "C27": (E2D_NOTE, "bounded-exhaustive enumeration of encodings and of single-fault corruptions of them against round-trip and refusal oracles"),
 "C28": (E2F_NOTE, "bounded-exhaustive enumeration of scripts, output read back and compared with an independently computed rendering"),
 "C18": (E1_NOTE, E18_TECH),
}
E2_NOTE = ("Trusted base: serde_json as the reference JSON implementation, sha2 and fluence-blake3 as hash functions, the 60-line reference CID framing in mc/src/e2.rs; "
           "bounds: the finite value universe and mutation catalogue of DESIGN.md 11.4 (no sampling; values outside the universe are not covered).")
CHECKS.update({
 "C21": ("exploration", "7 C21 and 11.8", "Every version of a grid straddling the minimal supported version (major x minor x patch x pre-release x build) written into the interpreter_version / data_version of the current data, of the previous data, and of an explicitly encoded empty data, for four victim situations: rejected with the unsupported-version code and previous data returned iff older by semver precedence, otherwise the outcome equals the honest run's field by field."),
 "C22": ("exploration", "7 C22 and 11.8", "For six victim situations (script, previous data, current data, call results) every combination of the three limits from {0, size-1, size, size+1, 2^64-1} in hard and soft mode: hard mode rejects iff some size exceeds its limit, with an error naming an exceeded limit and the previous data returned; otherwise the outcome equals the unlimited run and the three flags equal size > limit exactly."),
 "C24": ("exploration", "7 C24 and 11.8", "Every (value, path, scalar accessor) of a finite universe applied through the real interpreter on scalars, canonical streams and canonical maps and compared with plain JSON navigation: same value and same tetraplet lens, or a catchable error exactly when navigation is impossible. One known finding (absent map key followed by accessors) is listed in known_findings.json."),
})
CHECKS.update({
 "C18": ("model_checking", "7 C18 and 11.8", "Every schedule of every ERR script (17 failure kinds x 15 contexts x {uncaught, caught inside, caught outside} x failing peer; xors whose left branch succeeds or still waits; xors over an uncatchable error): the handler is requested only after a catchable failure, never for successful/waiting left branches, never for uncatchable errors; at quiescence of a caught variant the handler has run; the (error_code, message) the handler receives through :error: equal the (ret_code, error_message) the uncaught variant's runs end with."),
 "C27": ("exploration", "7 C27 and 11.8", "Every distinct honest data blob of the harvested explorations round-trips through three encode/decode routes; envelopes around broken inner data (all truncation lengths and byte flips of the first blobs) keep their versions readable and are answered with the data-deserialization error and the previous data; generated call-request and call-result maps round-trip through both decoders; payloads re-tagged with 18 other codec prefixes (MessagePack and JSON bodies) are refused by both decoders and by the interpreter."),
 "C28": ("exploration", "7 C28 and 11.8", "Every generated script the parser accepts is beautified with indent steps 1, 2, 4, 7 and the output, read back as (depth, line) pairs, is compared with an expected rendering computed from the script text by an independent reader: every instruction in order, depth = nesting depth with sequences flattened, compound heads and operands as written."),
})
CHECKS.update({
 "C01": ("fault_enumeration", "7 C01 and 11.9", "Adversarial but correctly signed data (the catalogue of C14 at every position of every situation, re-signed by the attacker and not), every truncation and single-byte substitution of honest envelopes fed to execute_air and to to_human_readable_data, name-clash / scope-edge scripts run to quiescence and seq/par/xor/new nested up to 1000 (thorough 100000) deep, each also parsed and beautified: no panic, no dead process, no allocation beyond a 4 GiB address space. Nine crash sites were repaired (fixed entries in known_findings.json); one known finding remains (unsound string after deserializing a validated archive, root cause in rkyv 0.7.43)."),
 "C14": ("fault_enumeration", "7 C14 and 11.9", "Every operator of the tamper catalogue (numbers, arrays, state kinds, re-pointed / consistently forged / relocated / swapped results, removed store entries, signatures, particle ids) at every position of every harvested situation, singly and as ordered pairs, re-signed by the attacker and not: the victim either rejects the data or its new data holds, for every honest peer, only results the honest outcome holds at the same call site, each stored with the value, tetraplet and argument hash its owner signed."),
 "C23": ("exploration", "7 C23 and 11.8", "Totality over all token strings up to length 4 (thorough 5) over a 26-token alphabet (Err or an Ok tree without error nodes, never a panic); Ok implies well-scoped (an independent ScopeCheck on the text) for every generated script and every single scope mutation of it. Two validator defects were repaired (fixed entries), two remain as known findings because the repository's own tests pin them (next after its fold; fail with an undefined scalar)."),
})
CHECKS.update({
 "C15": ("fault_enumeration", "7 C15 and 11.9", "Every pair (data the victim can hold, any data of the schedule graph) of five fork scripts - the equivocating peer signs result sets on different branches of the graph, including a repeated identical result - is merged by the victim: a peer whose two result multisets are incomparable makes the run fail in preparation with the previous data returned; nested sets are never rejected as inconsistent and the merged data carries, for every other peer, the signature from the input with the larger multiset."),
})
NOT_BUILT = {
 "C01": "no check claimed: the fault-enumeration sweep (isolated worker, JSON-tree tamper pipeline) designed in DESIGN.md 7 C01 was not built in the time available; the six crash sites reproduced by hand in the design phase are described there",
 "C14": "no check claimed: the tamper catalogue of DESIGN.md 7 C14 was not built in the time available",
 "C15": "no check claimed: the fork/equivocation enumeration of DESIGN.md 7 C15 was not built in the time available",
 "C18": "no check claimed: the caught/uncaught comparison of DESIGN.md 7 C18 was not built in the time available",
 "C21": "no check claimed: the version-grid enumeration of DESIGN.md 7 C21 was not built in the time available",
 "C22": "no check claimed: the limit-grid enumeration of DESIGN.md 7 C22 was not built in the time available",
 "C23": "no check claimed: the ScopeCheck reference and script/text enumeration of DESIGN.md 7 C23 were not built in the time available (the out-of-scope iterator acceptance found by hand is described there)",
 "C24": "no check claimed: the lens enumeration of DESIGN.md 7 C24 was not built in the time available",
 "C27": "no check claimed: the encoding round-trip enumeration of DESIGN.md 7 C27 was not built in the time available",
 "C28": "no check claimed: the BeautyReader comparison of DESIGN.md 7 C28 was not built in the time available",
}

checks = []
for pid, (cat, ref, text) in CHECKS.items():
    checks.append({
        "property_id": pid,
        "quick_cmd": f"bin/check {pid} quick",
        "thorough_cmd": f"bin/check {pid} thorough",
        "evidence_file": f"evidence/{pid}.json",
        "replay_cmd_template": f"bin/check {pid} --replay {{path}}",
        "engine": "mc",
        "level_claimed": {"category": cat, "text": text, "design_ref": f"DESIGN.md section {ref}"},
        "level_note": EXTRA[pid][0] if pid in EXTRA else (E1_NOTE if cat == "model_checking" else E2_NOTE),
        "technique": EXTRA[pid][1] if pid in EXTRA else (E1_TECH if cat == "model_checking" else "bounded-exhaustive enumeration of a finite input/fault space against a reference model"),
    })
na = [{"property_id": p['id'], "reason": NOT_BUILT[p['id']]} for p in props if p['id'] not in CHECKS]
checks.sort(key=lambda c: c["property_id"])
m = {
 "version": 1,
 "setup_cmd": "bin/setup",
 "hooks": {"guard": "fluencelabs_aquavm_verif", "enable": "no hooks are needed: every observation point is a public API value (outcome, decoded data, decoded call requests)",
           "baseline_off_cmd": "bin/baseline /repo", "source_commits": [], "add_only": True},
 "engines": [{"name": "mc", "path": "mc", "serves_properties": sorted(CHECKS),
              "kind_free_text": "hand-written explicit-state explorer (E1 netmc) and bounded-exhaustive enumerator (E2) in Rust, linked against the repository crates by path; the transition function is air::execute_air itself"}],
 "checks": checks,
 "not_applicable": na,
 "notes": "See DESIGN.md. known_findings.json lists genuine defects (fixed ones suppress nothing).",
}
json.dump(m, open(os.path.join(V, 'MANIFEST.json'), 'w'), indent=1)
print(f"{len(checks)} checks, {len(na)} not yet claimed")
