#!/bin/bash
# usage: tools/verify_agent_seed.sh <seed-id> <property>   - independent confirmation of a sub-agent's seeded change in the
# scratch worktree /tmp/wt/fix: the demo passes on the clean tree, fails with patch.diff, and the 407-test baseline still
# passes with patch.diff (demo removed). Writes /verif/seeded/<seed-id>/meta.json.
set -uo pipefail
SID="$1"; PROP="$2"; D=/verif/seeded/$SID; WT="${WT:-/tmp/wt/fix}"
cd "$WT" || exit 2
git checkout -q --detach main; git reset -q --hard main; git clean -fdq -e target
DEMO=$(basename "$D"/demo_*.rs .rs)
DEMO_DIR="${DEMO_DIR:-air/tests}"; DEMO_PKG="${DEMO_PKG:-aquavm-air}"
DEMO_FEATURES="${DEMO_FEATURES---features air-test-utils/test_with_native_code,check_signatures,gen_signatures}"
mkdir -p "$DEMO_DIR"; cp "$D/$DEMO.rs" "$DEMO_DIR/"
run_demo() { cargo test -p "$DEMO_PKG" $DEMO_FEATURES --offline --test "$DEMO" > "$WT/target/demo.log" 2>&1; echo $?; }
r_without=$(run_demo); w1=$(grep -E "^test result" "$WT/target/demo.log" | head -1)
patch -p1 -s < "$D/patch.diff" || { echo "$SID: patch does not apply"; exit 2; }
r_with=$(run_demo); w2=$(grep -E "^test result" "$WT/target/demo.log" | head -1)
rm -f "$DEMO_DIR/$DEMO.rs"
b=$(bash /verif/bin/baseline "$WT" | head -1)
ok=no; if [ "$r_without" = 0 ] && [ "$r_with" != 0 ] && echo "$b" | grep -q "407/407"; then ok=yes; fi
echo "$SID: demo without patch exit=$r_without ($w1); with patch exit=$r_with ($w2); $b; CONFIRMED=$ok"
python3 - "$D" "$PROP" "$DEMO" "$b" "$w1" "$w2" "$ok" <<'PY'
import json,sys,os
d,prop,demo,b,w1,w2,ok=sys.argv[1:8]
p=os.path.join(d,'meta.json')
meta=json.load(open(p)) if os.path.exists(p) else {}
meta.update({"property":prop,"origin":"independent sub-agent (given only the property text and a scratch worktree)","demo_test":demo,
 "confirmed": ok=="yes",
 "confirmation":{"demo_without_patch":w1 or "passes","demo_with_patch":w2 or "fails","baseline_with_patch":b},
 "ran":["cargo test -p <package of the demo> [native + signature features for aquavm-air] --offline --test "+demo+" (clean tree, then with patch.diff)","bin/baseline <scratch worktree> with patch.diff applied and the demo removed"],
 "needs":"see NOTES.md (written by the sub-agent)"})
json.dump(meta,open(p,'w'),indent=1)
PY
git checkout -q -- .; git clean -fdq -e target
