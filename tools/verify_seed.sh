#!/bin/bash
# usage: tools/verify_seed.sh <worktree> <seed-id> <property> -- confirms a sub-agent's mutant independently:
# demo fails with patch, passes without, baseline 407/407 with patch; then stores it under /verif/seeded/<seed-id>/
set -uo pipefail
WT="$1"; SID="$2"; PROP="$3"
M="$WT/MUTANT"
cd "$WT" || exit 2
git reset -q --hard HEAD; git clean -fdq -e MUTANT -e target
git apply "$M/demo.diff" || { echo "demo.diff does not apply"; exit 2; }
DEMO=$(grep -o 'air/tests/[a-z_0-9]*\.rs' "$M/demo.diff" | head -1 | xargs -n1 basename | sed 's/\.rs$//')
run_demo() { cargo test --offline -p aquavm-air --features check_signatures,gen_signatures --test "$DEMO" >"$WT/target/demo.log" 2>&1; echo $?; }
echo "demo test: $DEMO"
r_without=$(run_demo); tail -3 "$WT/target/demo.log" > "$WT/target/demo_without.txt"
git apply "$M/patch.diff" || { echo "patch.diff does not apply"; exit 2; }
r_with=$(run_demo); grep -E "panicked|assert|test result" "$WT/target/demo.log" | head -5 > "$WT/target/demo_with.txt"
echo "demo exit without patch: $r_without ; with patch: $r_with"
# baseline with the patch only (demo removed so that it cannot influence anything)
git reset -q --hard HEAD; git clean -fdq -e MUTANT -e target; git apply "$M/patch.diff"
b=$(/verif/bin/baseline "$WT" | head -1); echo "$b"
ok=no
if [ "$r_without" = 0 ] && [ "$r_with" != 0 ] && echo "$b" | grep -q "407/407"; then ok=yes; fi
echo "CONFIRMED=$ok"
if [ "$ok" = yes ]; then
  D=/verif/seeded/$SID; mkdir -p "$D"
  cp "$M/patch.diff" "$M/demo.diff" "$D/"; cp "$M/README.md" "$D/AGENT_README.md"
  python3 - "$D" "$PROP" "$DEMO" "$b" <<'PY'
import json,sys,os
d,prop,demo,b=sys.argv[1:5]
meta={"property":prop,"demo_test":demo,
 "confirmed":{"demo_without_patch":"passes","demo_with_patch":"fails","baseline_with_patch":b},
 "ran":["cargo test --offline -p aquavm-air --features check_signatures,gen_signatures --test "+demo+" (with and without patch.diff)","bin/baseline <worktree> with patch.diff applied"],
 "needs":"see AGENT_README.md","detected_by":None}
json.dump(meta,open(os.path.join(d,'meta.json'),'w'),indent=1)
PY
fi
