#!/bin/bash
# usage: tools/verify_own_mutant.sh <seed-id> <ID,ID,...>  - baseline with the patch (scratch worktree /tmp/wt/fix2), then the
# quick checks named against a scratch copy; records both in seeded/<seed-id>/meta.json
set -uo pipefail
SID="$1"; IDS="$2"; D=/verif/seeded/$SID; WT=/tmp/wt/fix2
cd "$WT" || exit 2
git checkout -q --detach main 2>/dev/null; git reset -q --hard main; git clean -fdq -e target
patch -p1 -s < "$D/patch.diff" || { echo "$SID: patch does not apply"; exit 2; }
b=$(bash /verif/bin/baseline "$WT" | head -1)
git checkout -q -- .
res=""
for id in ${IDS//,/ }; do
  r=$(cd /verif && tools/mutcheck.sh "$D/patch.diff" "$id" 2>&1 | grep -E "signature:|VIOLATION|^OK|MACHINERY" | head -3 | tr '\n' ' ' | cut -c1-200)
  res="$res$id: $r; "
done
echo "$SID: $b | $res"
python3 - "$D" "$b" "$res" <<'PY'
import json,sys,os
d,b,res=sys.argv[1:4]
p=os.path.join(d,'meta.json'); m=json.load(open(p)) if os.path.exists(p) else {}
m["baseline_with_patch"]=b; m["quick_checks"]=res
m["ran"]=["bin/baseline <scratch worktree> with patch.diff applied","tools/mutcheck.sh patch.diff <ID> (quick tier against a scratch copy of /repo)"]
json.dump(m,open(p,'w'),indent=1)
PY
