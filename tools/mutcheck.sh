#!/bin/bash
# usage: tools/mutcheck.sh <patch.diff> <ID> [<ID>...]   - applies a patch to a scratch copy of /repo (never /repo itself),
# runs the quick checks named against it (evidence goes to the scratch target dir), then restores the copy.
set -uo pipefail
PATCH="$(readlink -f "$1")"; shift
MUT=/tmp/aquavm-mut; TGT=/tmp/aquavm-mut-target
mkdir -p "$MUT" "$TGT"
rsync -a --delete --exclude target --exclude .git /repo/ "$MUT/"
( cd "$MUT" && patch -p1 -s < "$PATCH" ) || { echo "patch does not apply"; exit 2; }
rc=0
for id in "$@"; do
  echo "== $id on $(basename "$(dirname "$PATCH")")"
  VERIF_REPO="$MUT" VERIF_TARGET="$TGT" timeout 900 /verif/bin/check "$id" "${MUT_TIER:-quick}" 2>&1 | grep -E "VIOLATION|KNOWN-FINDING|^OK|MACHINERY|signature:" | head -8
done
rsync -a --delete --exclude target --exclude .git /repo/ "$MUT/"
