#!/bin/bash
# usage: tools/mutloop.sh "<seed-dir>:<ID,ID,...>" ...   - runs the quick checks named against each seeded patch, from a
# snapshot of /verif (so that /verif can be edited meanwhile); results go to /tmp/mutloop.log
set -uo pipefail
SNAP=/tmp/verif-snap
rm -rf "$SNAP"; mkdir -p "$SNAP"
rsync -a --exclude target --exclude .git --exclude evidence --exclude replays /verif/ "$SNAP/"
MUT=/tmp/aquavm-mut; TGT=/tmp/aquavm-mut-target
mkdir -p "$MUT" "$TGT"
for spec in "$@"; do
  seed="${spec%%:*}"; ids="${spec#*:}"
  rsync -rlpgoD --checksum --delete --exclude target --exclude .git /repo/ "$MUT/"
  if ! ( cd "$MUT" && patch -p1 -s < "/verif/seeded/$seed/patch.diff" ); then echo "== $seed: patch does not apply" | tee -a /tmp/mutloop.log; continue; fi
  for id in ${ids//,/ }; do
    res=$(VERIF_REPO="$MUT" VERIF_TARGET="$TGT" VERIF_SEED=1 timeout 1500 "$SNAP/bin/check" "$id" quick 2>&1 | strings | grep -E "VIOLATION|^OK|MACHINERY|signature:" | head -6 | cut -c1-160 | tr '\n' '|')
    echo "== $seed $id: $res" | tee -a /tmp/mutloop.log
  done
done
rsync -rlpgoD --checksum --delete --exclude target --exclude .git /repo/ "$MUT/"
echo "== done" | tee -a /tmp/mutloop.log
